import ThruVerif.Model.Routing
import ThruVerif.Gen.Shapes
import Mathlib.Data.List.Nodup
/-!
# C10 — Signaling messages stay inside their session and carry the true sender

`Inv` (who may hold what) and `Fifo` (order) are inductive invariants of the routing transition system: they hold in
every reachable state, for every interleaving of joins, leaves, reconnects with duplicate peer ids, session closes,
server broadcasts, client messages of any content, per-target broadcast steps and writer deliveries.
-/
namespace TV.C10
open TV.Routing

/-- the envelope says who really wrote it: the server, or a connection whose peer id is the `from` and whose session
is the recorded one -/
def Authored (s : St) (e : Env) : Prop :=
  (e.aconn = 0 ∧ e.frm = 0) ∨ (∃ m ∈ s.ever, m.conn = e.aconn ∧ m.peer = e.frm ∧ m.sid = e.asid)

/-- an envelope held for connection `x.1` is legitimately there -/
def Good (s : St) (x : Conn × Env) : Prop :=
  Authored s x.2 ∧ ∃ m ∈ s.ever, m.conn = x.1 ∧ m.sid = x.2.asid ∧ (x.2.to ≠ 0 → m.peer = x.2.to) ∧
    (x.2.to = 0 → x.2.aconn ≠ 0 → m.peer ≠ x.2.frm)

structure Inv (s : St) : Prop where
  noPanic : s.panicked = false
  everConn : (s.ever.map (·.conn)).Nodup
  everNZ : ∀ m ∈ s.ever, m.conn ≠ 0
  memNodup : (s.members.map (·.conn)).Nodup
  memEver : ∀ m ∈ s.members, m ∈ s.ever
  sockEver : ∀ m ∈ s.socks, m ∈ s.ever
  memOpen : ∀ m ∈ s.members, m.conn ∉ s.closedCh
  closedEver : ∀ c ∈ s.closedCh, ∃ m ∈ s.ever, m.conn = c
  memUniq : ∀ m1 ∈ s.members, ∀ m2 ∈ s.members, m1.sid = m2.sid → m1.peer = m2.peer → m1 = m2
  pendTargets : ∀ p ∈ s.pend, ∀ t ∈ p.targets, ∃ m ∈ s.members, m.conn = t ∧ m.sid = p.env.asid ∧
    (p.env.aconn ≠ 0 → m.peer ≠ p.env.frm)
  pendShape : ∀ p ∈ s.pend, p.env.to = 0 ∧ Authored s p.env
  storedQ : ∀ x ∈ s.queue, Good s x
  storedR : ∀ x ∈ s.recvd, Good s x
  storedD : ∀ x ∈ s.dropped, Good s x

theorem inv_init (cap : Nat) : Inv (init cap) := by
  constructor <;> simp [init]

theorem Authored.mono {s s' : St} {e : Env} (h : Authored s e) (he : ∀ m ∈ s.ever, m ∈ s'.ever) : Authored s' e := by
  rcases h with h | ⟨m, hm, h⟩
  · exact Or.inl h
  · exact Or.inr ⟨m, he m hm, h⟩

theorem Good.mono {s s' : St} {x : Conn × Env} (h : Good s x) (he : ∀ m ∈ s.ever, m ∈ s'.ever) : Good s' x := by
  obtain ⟨ha, m, hm, h⟩ := h
  exact ⟨ha.mono he, m, he m hm, h⟩

theorem ever_conn_unique {s : St} (h : Inv s) {a b : Member} (ha : a ∈ s.ever) (hb : b ∈ s.ever)
    (hc : a.conn = b.conn) : a = b :=
  List.inj_on_of_nodup_map h.everConn ha hb hc

/-- `trySend` to a registered connection with a legitimate envelope keeps the invariant -/
theorem trySend_inv {s : St} (h : Inv s) {r : Conn} {e : Env} (hm : ∃ m ∈ s.members, m.conn = r)
    (hg : Good s (r, e)) : Inv (trySend s r e) := by
  obtain ⟨m, hmm, rfl⟩ := hm
  have hopen := h.memOpen m hmm
  unfold trySend
  simp only [hopen, if_false]
  split
  · refine { h with storedQ := ?_ }
    intro x hx
    simp only [List.mem_append, List.mem_singleton] at hx
    rcases hx with hx | hx
    · exact h.storedQ x hx
    · subst hx; exact hg
  · refine { h with storedD := ?_ }
    intro x hx
    simp only [List.mem_append, List.mem_singleton] at hx
    rcases hx with hx | hx
    · exact h.storedD x hx
    · subst hx; exact hg

theorem trySend_fields (s : St) (r : Conn) (e : Env) :
    (trySend s r e).members = s.members ∧ (trySend s r e).socks = s.socks ∧ (trySend s r e).ever = s.ever ∧
    (trySend s r e).closedCh = s.closedCh ∧ (trySend s r e).pend = s.pend ∧ (trySend s r e).next = s.next ∧
    (trySend s r e).errs = s.errs ∧ (trySend s r e).recvd = s.recvd ∧ (trySend s r e).cap = s.cap := by
  unfold trySend
  split
  · simp
  · split <;> simp

theorem popFirst_spec {r : Conn} {q : List (Conn × Env)} {e : Env} {rest : List (Conn × Env)}
    (h : popFirst r q = some (e, rest)) :
    ∃ l1 l2, q = l1 ++ (r, e) :: l2 ∧ rest = l1 ++ l2 ∧ ∀ x ∈ l1, x.1 ≠ r := by
  induction q generalizing rest with
  | nil => simp [popFirst] at h
  | cons x xs ih =>
    simp only [popFirst] at h
    split at h
    · rename_i hx
      cases h
      refine ⟨[], xs, ?_, rfl, by simp⟩
      have : x.1 = r := by simpa using hx
      cases x; simp_all
    · rename_i hx
      split at h
      · rename_i e' rest' hp
        cases h
        obtain ⟨l1, l2, h1, h2, h3⟩ := ih hp
        refine ⟨x :: l1, l2, by simp [h1], by simp [h2], ?_⟩
        intro y hy
        rcases List.mem_cons.mp hy with rfl | hy
        · simpa using hx
        · exact h3 y hy
      · cases h

theorem lookup_mem {s : St} {sid : Sid} {p : Peer} {m : Member} (h : lookup s sid p = some m) :
    m ∈ s.members ∧ m.sid = sid ∧ m.peer = p := by
  unfold lookup at h
  have h1 := List.mem_of_find?_eq_some h
  have h2 := List.find?_some h
  simp only [Bool.and_eq_true, beq_iff_eq] at h2
  exact ⟨h1, h2.1, h2.2⟩

theorem step_inv {s s' : St} {a : Act} (h : Inv s) (hs : step s a = some s') : Inv s' := by
  cases a with
  | join sid c p =>
    simp only [step] at hs
    split at hs
    · cases hs
    · rename_i hcond
      cases hs
      simp only [not_or, ne_eq, Decidable.not_not, Bool.not_eq_true] at hcond
      obtain ⟨hp, hc0, hfresh⟩ := hcond
      have hc0 : c ≠ 0 := hc0
      have hfresh' : ∀ m ∈ s.ever, m.conn ≠ c := by
        intro m hm hc
        rw [List.any_eq_false] at hfresh
        exact hfresh m hm (by simp [hc])
      have hmono : ∀ m ∈ s.ever, m ∈ s.ever ++ [(⟨sid, c, p⟩ : Member)] := fun m hm => List.mem_append_left _ hm
      constructor
      · exact h.noPanic
      · simp only [List.map_append, List.map_cons, List.map_nil]
        rw [List.nodup_append]
        refine ⟨h.everConn, by simp, ?_⟩
        intro a ha b hb
        simp only [List.mem_singleton] at hb
        subst hb
        obtain ⟨m, hm, rfl⟩ := List.mem_map.mp ha
        exact hfresh' m hm
      · intro m hm
        simp only [List.mem_append, List.mem_singleton] at hm
        rcases hm with hm | hm
        · exact h.everNZ m hm
        · subst hm; exact hc0
      · simp only [List.map_append, List.map_cons, List.map_nil]
        rw [List.nodup_append]
        refine ⟨h.memNodup.sublist (List.Sublist.map _ List.filter_sublist), by simp, ?_⟩
        intro a ha b hb
        simp only [List.mem_singleton] at hb
        subst hb
        obtain ⟨m, hm, rfl⟩ := List.mem_map.mp ha
        simp only [List.mem_filter] at hm
        exact hfresh' m (h.memEver m hm.1)
      · intro m hm
        simp only [List.mem_append, List.mem_filter, List.mem_singleton] at hm ⊢
        rcases hm with hm | hm
        · exact Or.inl (h.memEver m hm.1)
        · exact Or.inr hm
      · intro m hm
        simp only [List.mem_append, List.mem_singleton] at hm ⊢
        rcases hm with hm | hm
        · exact Or.inl (h.sockEver m hm)
        · exact Or.inr hm
      · intro m hm
        simp only [List.mem_append, List.mem_filter, List.mem_singleton, List.mem_map, not_or, not_exists, not_and] at hm ⊢
        rcases hm with hm | hm
        · refine ⟨h.memOpen m hm.1, ?_⟩
          intro m' hm' hc
          have : m' = m := ever_conn_unique h (h.memEver _ hm'.1) (h.memEver _ hm.1) hc
          subst this
          simp only [Bool.and_eq_true, beq_iff_eq] at hm'
          simp [hm'.2.1, hm'.2.2] at hm
        · subst hm
          refine ⟨?_, ?_⟩
          · intro hcl
            obtain ⟨m', hm', hc'⟩ := h.closedEver _ hcl
            exact hfresh' m' hm' hc' 
          · intro m' hm' hc
            exact hfresh' m' (h.memEver _ hm'.1) hc
      · intro c' hc'
        simp only [List.mem_append, List.mem_map, List.mem_filter] at hc'
        rcases hc' with hc' | ⟨m', hm', rfl⟩
        · obtain ⟨m', hm', h'⟩ := h.closedEver c' hc'
          exact ⟨m', hmono m' hm', h'⟩
        · exact ⟨m', hmono m' (h.memEver m' hm'.1), rfl⟩
      · intro m1 hm1 m2 hm2 hsid hpeer
        simp only [List.mem_append, List.mem_filter, List.mem_singleton, Bool.not_eq_true', Bool.and_eq_false_iff,
          beq_eq_false_iff_ne, ne_eq] at hm1 hm2
        rcases hm1 with hm1 | hm1 <;> rcases hm2 with hm2 | hm2
        · exact h.memUniq m1 hm1.1 m2 hm2.1 hsid hpeer
        · subst hm2
          simp only at hsid hpeer
          rcases hm1.2 with h1 | h1
          · exact absurd hsid h1
          · exact absurd hpeer h1
        · subst hm1
          simp only at hsid hpeer
          rcases hm2.2 with h1 | h1
          · exact absurd hsid.symm h1
          · exact absurd hpeer.symm h1
        · rw [hm1, hm2]
      · intro p' hp'
        simp only at hp'
        rw [hp] at hp'
        cases hp'
      · intro p' hp'
        simp only at hp'
        rw [hp] at hp'
        cases hp'
      · intro x hx; exact (h.storedQ x hx).mono hmono
      · intro x hx; exact (h.storedR x hx).mono hmono
      · intro x hx; exact (h.storedD x hx).mono hmono
  | leave c =>
    simp only [step] at hs
    split at hs
    · cases hs
    · rename_i hp
      simp only [ne_eq, Decidable.not_not] at hp
      split at hs
      · cases hs
        rename_i hany
        refine { h with memNodup := ?_, memEver := ?_, memOpen := ?_, closedEver := ?_, memUniq := ?_, pendTargets := ?_, pendShape := ?_ }
        · exact h.memNodup.sublist (List.Sublist.map _ List.filter_sublist)
        · intro m hm
          simp only [List.mem_filter] at hm
          exact h.memEver m hm.1
        · intro m hm
          simp only [List.mem_filter, bne_iff_ne, ne_eq] at hm
          simp only [List.mem_append, List.mem_singleton, not_or]
          exact ⟨h.memOpen m hm.1, hm.2⟩
        · intro c' hc'
          simp only [List.mem_append, List.mem_singleton] at hc'
          rcases hc' with hc' | rfl
          · exact h.closedEver c' hc'
          · simp only [List.any_eq_true, beq_iff_eq] at hany
            obtain ⟨m, hm, hc⟩ := hany
            exact ⟨m, h.memEver m hm, hc⟩
        · intro m1 hm1 m2 hm2
          simp only [List.mem_filter] at hm1 hm2
          exact h.memUniq m1 hm1.1 m2 hm2.1
        · intro p' hp'; simp only at hp'; rw [hp] at hp'; cases hp'
        · intro p' hp'; simp only at hp'; rw [hp] at hp'; cases hp'
      · cases hs; exact h
  | hangup c =>
    simp only [step] at hs
    split at hs
    · cases hs
    · cases hs
      refine { h with sockEver := ?_, pendShape := ?_ }
      · intro m hm
        simp only [List.mem_filter] at hm
        exact h.sockEver m hm.1
      · intro p' hp'
        obtain ⟨h1, h2⟩ := h.pendShape p' hp'
        exact ⟨h1, h2.mono (fun m hm => hm)⟩
  | closeSession sid =>
    simp only [step] at hs
    split at hs
    · cases hs
    · rename_i hp
      simp only [ne_eq, Decidable.not_not] at hp
      cases hs
      refine { h with memNodup := ?_, memEver := ?_, memOpen := ?_, closedEver := ?_, memUniq := ?_, pendTargets := ?_, pendShape := ?_ }
      · exact h.memNodup.sublist (List.Sublist.map _ List.filter_sublist)
      · intro m hm
        simp only [List.mem_filter] at hm
        exact h.memEver m hm.1
      · intro m hm
        simp only [List.mem_filter, bne_iff_ne, ne_eq] at hm
        simp only [List.mem_append, List.mem_map, not_or, not_exists, not_and, membersOf, List.mem_filter, beq_iff_eq]
        refine ⟨h.memOpen m hm.1, ?_⟩
        intro m' hm' hc
        have : m' = m := ever_conn_unique h (h.memEver _ hm'.1) (h.memEver _ hm.1) hc
        subst this
        exact hm.2 hm'.2
      · intro c' hc'
        simp only [List.mem_append, List.mem_map, membersOf, List.mem_filter] at hc'
        rcases hc' with hc' | ⟨m', hm', rfl⟩
        · exact h.closedEver c' hc'
        · exact ⟨m', h.memEver m' hm'.1, rfl⟩
      · intro m1 hm1 m2 hm2
        simp only [List.mem_filter] at hm1 hm2
        exact h.memUniq m1 hm1.1 m2 hm2.1
      · intro p' hp'; simp only at hp'; rw [hp] at hp'; cases hp'
      · intro p' hp'; simp only at hp'; rw [hp] at hp'; cases hp'
  | sys sid body =>
    simp only [step] at hs
    cases hs
    refine { h with pendTargets := ?_, pendShape := ?_ }
    · intro p' hp' t ht
      simp only [List.mem_append, List.mem_singleton] at hp'
      rcases hp' with hp' | hp'
      · exact h.pendTargets p' hp' t ht
      · subst hp'
        simp only [membersOf, List.mem_map, List.mem_filter, beq_iff_eq] at ht
        obtain ⟨m, ⟨hm, hsid⟩, rfl⟩ := ht
        exact ⟨m, hm, rfl, hsid, by simp⟩
    · intro p' hp'
      simp only [List.mem_append, List.mem_singleton] at hp'
      rcases hp' with hp' | hp'
      · obtain ⟨h1, h2⟩ := h.pendShape p' hp'
        exact ⟨h1, h2.mono (fun m hm => hm)⟩
      · subst hp'
        exact ⟨rfl, Or.inl ⟨rfl, rfl⟩⟩
  | msg c raw =>
    simp only [step] at hs
    split at hs
    · cases hs
    · rename_i me hme
      have hmem : me ∈ s.socks := List.mem_of_find?_eq_some hme
      have hmc : me.conn = c := by simpa using List.find?_some hme
      split at hs
      · cases hs
      · split at hs
        · cases hs; exact h
        · rename_i claimed tgt body hacc
          have hauth : ∀ s1 : St, s1.ever = s.ever → Authored s1 ⟨me.peer, tgt, body, c, me.sid, nextOf s c⟩ := by
            intro s1 he
            exact Or.inr ⟨me, by rw [he]; exact h.sockEver me hmem, hmc, rfl, rfl⟩
          have h1 : Inv { s with next := bump s c } := { h with }
          split at hs
          · rename_i hto
            split at hs
            · rename_i m hlook
              cases hs
              obtain ⟨hm1, hm2, hm3⟩ := lookup_mem hlook
              apply trySend_inv h1 ⟨m, hm1, rfl⟩
              exact ⟨hauth _ rfl, m, h.memEver m hm1, rfl, hm2, fun _ => hm3, fun h0 => absurd h0 hto⟩
            · cases hs
              exact { h1 with }
          · rename_i hto
            simp only [ne_eq, Decidable.not_not] at hto
            cases hs
            refine { h1 with pendTargets := ?_, pendShape := ?_ }
            · intro p' hp' t ht
              simp only [List.mem_append, List.mem_singleton] at hp'
              rcases hp' with hp' | hp'
              · exact h.pendTargets p' hp' t ht
              · subst hp'
                simp only [membersOf, List.mem_filter, List.mem_map, beq_iff_eq, bne_iff_ne, ne_eq] at ht
                obtain ⟨⟨m, ⟨hm, hsid⟩, rfl⟩, hex⟩ := ht
                refine ⟨m, hm, rfl, hsid, ?_⟩
                intro _ hpeer
                simp only at hpeer
                apply hex
                cases hl : lookup s me.sid me.peer with
                | none =>
                  exfalso
                  unfold lookup at hl
                  rw [List.find?_eq_none] at hl
                  exact hl m hm (by simp [hsid, hpeer])
                | some m' =>
                  obtain ⟨hm1, hm2, hm3⟩ := lookup_mem hl
                  have : m' = m := h.memUniq m' hm1 m hm (by rw [hm2, hsid]) (by rw [hm3, hpeer])
                  simp [this]
            · intro p' hp'
              simp only [List.mem_append, List.mem_singleton] at hp'
              rcases hp' with hp' | hp'
              · exact h.pendShape p' hp'
              · subst hp'
                exact ⟨hto, hauth _ rfl⟩
  | bstep i r =>
    simp only [step] at hs
    split at hs
    · cases hs
    · rename_i p hp
      have hpm : p ∈ s.pend := List.mem_of_getElem? hp
      split at hs
      · rename_i hr
        cases hs
        obtain ⟨m, hm, hmc, hms, hmp⟩ := h.pendTargets p hpm r hr
        obtain ⟨hto, hau⟩ := h.pendShape p hpm
        have h1 : Inv (trySend s r p.env) := by
          apply trySend_inv h ⟨m, hm, hmc⟩
          exact ⟨hau, m, h.memEver m hm, hmc, hms, fun hne => absurd hto hne, fun _ => hmp⟩
        obtain ⟨f1, f2, f3, f4, f5, f6, f7, f8, f9⟩ := trySend_fields s r p.env
        have hsub : ∀ p' ∈ (if p.targets.erase r = [] then (trySend s r p.env).pend.eraseIdx i
            else (trySend s r p.env).pend.set i ⟨p.env, p.targets.erase r⟩),
            p' ∈ s.pend ∨ p' = ⟨p.env, p.targets.erase r⟩ := by
          intro p' hp'
          rw [f5] at hp'
          split at hp'
          · exact Or.inl (List.mem_of_mem_eraseIdx hp')
          · rcases List.mem_or_eq_of_mem_set hp' with h' | h'
            · exact Or.inl h'
            · exact Or.inr h'
        refine { h1 with pendTargets := ?_, pendShape := ?_ }
        · intro p' hp' t ht
          rcases hsub p' hp' with h' | h'
          · simp only [f1]
            exact h.pendTargets p' h' t ht
          · subst h'
            simp only [f1]
            exact h.pendTargets p hpm t (List.mem_of_mem_erase ht)
        · intro p' hp'
          rcases hsub p' hp' with h' | h'
          · obtain ⟨a1, a2⟩ := h.pendShape p' h'
            exact ⟨a1, a2.mono (by simp [f3])⟩
          · subst h'
            exact ⟨hto, hau.mono (by simp [f3])⟩
      · cases hs
  | deliver r =>
    simp only [step] at hs
    split at hs
    · rename_i e rest hp
      cases hs
      obtain ⟨l1, l2, h1, h2, _⟩ := popFirst_spec hp
      refine { h with storedQ := ?_, storedR := ?_ }
      · intro x hx
        apply h.storedQ
        rw [h1]
        rw [h2] at hx
        simp only [List.mem_append, List.mem_cons] at hx ⊢
        tauto
      · intro x hx
        simp only [List.mem_append, List.mem_singleton] at hx
        rcases hx with hx | hx
        · exact h.storedR x hx
        · subst hx
          apply h.storedQ
          rw [h1]
          simp
    · cases hs

/-! ## order: per (author connection, recipient connection) nothing is duplicated or overtaken -/

theorem find_filter_ne (l : List (Conn × Nat)) (c c' : Conn) (h : c' ≠ c) :
    (l.filter (fun x => x.1 != c)).find? (fun x => x.1 == c') = l.find? (fun x => x.1 == c') := by
  induction l with
  | nil => rfl
  | cons x xs ih =>
    by_cases hx : x.1 = c
    · have h1 : (x.1 != c) = false := by simp [hx]
      have h2 : (x.1 == c') = false := by rw [hx]; simpa using Ne.symm h
      rw [List.filter_cons, h1, List.find?_cons, h2]
      simpa using ih
    · have h1 : (x.1 != c) = true := by simp [hx]
      rw [List.filter_cons, h1]
      simp only [if_true, List.find?_cons]
      split
      · rfl
      · exact ih

theorem nextOf_bump_self (s : St) (c : Conn) : nextOf { s with next := bump s c } c = nextOf s c + 1 := by
  have : (s.next.filter (fun x => x.1 != c)).find? (fun x => x.1 == c) = none := by
    rw [List.find?_eq_none]
    intro x hx
    simp only [List.mem_filter, bne_iff_ne, ne_eq] at hx
    simp [hx.2]
  simp [nextOf, bump, List.find?_append, this]

theorem nextOf_bump_other (s : St) (c c' : Conn) (h : c' ≠ c) : nextOf { s with next := bump s c } c' = nextOf s c' := by
  simp only [nextOf, bump, List.find?_append, find_filter_ne _ _ _ h]
  cases hf : s.next.find? (fun x => x.1 == c') with
  | some v => simp
  | none => simp [Ne.symm h]

/-- sequence numbers of what author `a` has in the stream of recipient `r`, oldest first -/
def proj (l : List (Conn × Env)) (r a : Conn) : List Nat :=
  (l.filter (fun x => x.1 == r && x.2.aconn == a)).map (·.2.seq)

/-- client authors with a broadcast in progress -/
def authors (l : List Pend) : List Conn := (l.map (·.env.aconn)).filter (· != 0)

structure Fifo (s : St) : Prop where
  bound : ∀ x ∈ s.recvd ++ s.queue, x.2.aconn ≠ 0 → x.2.seq < nextOf s x.2.aconn
  pendBound : ∀ p ∈ s.pend, p.env.aconn ≠ 0 → p.env.seq < nextOf s p.env.aconn
  pendOne : (authors s.pend).Nodup
  pendNodup : ∀ p ∈ s.pend, p.targets.Nodup
  pendFresh : ∀ p ∈ s.pend, p.env.aconn ≠ 0 → ∀ x ∈ s.recvd ++ s.queue, x.2.aconn = p.env.aconn →
    x.1 ∈ p.targets → x.2.seq < p.env.seq
  sorted : ∀ r a, a ≠ 0 → (proj (s.recvd ++ s.queue) r a).Pairwise (· < ·)

theorem fifo_init (cap : Nat) : Fifo (init cap) := by
  constructor <;> simp [init, authors, proj]

theorem split_at {α : Type} {L : List α} {i : Nat} {p : α} (h : L[i]? = some p) :
    ∃ l1 l2, L = l1 ++ p :: l2 ∧ L.eraseIdx i = l1 ++ l2 ∧ ∀ p', L.set i p' = l1 ++ p' :: l2 := by
  induction L generalizing i with
  | nil => simp at h
  | cons x xs ih =>
    cases i with
    | zero =>
      simp only [List.getElem?_cons_zero, Option.some.injEq] at h
      subst h
      exact ⟨[], xs, rfl, rfl, fun _ => rfl⟩
    | succ j =>
      simp only [List.getElem?_cons_succ] at h
      obtain ⟨l1, l2, h1, h2, h3⟩ := ih h
      refine ⟨x :: l1, l2, by simp [h1], by simp [h2], fun p' => by simp [h3 p']⟩

theorem authors_append (a b : List Pend) : authors (a ++ b) = authors a ++ authors b := by
  simp [authors]

theorem authors_cons (p : Pend) (l : List Pend) :
    authors (p :: l) = (if p.env.aconn != 0 then [p.env.aconn] else []) ++ authors l := by
  simp only [authors, List.map_cons, List.filter_cons]
  split <;> simp

theorem mem_authors {l : List Pend} {q : Pend} (hq : q ∈ l) (h0 : q.env.aconn ≠ 0) : q.env.aconn ∈ authors l := by
  simp only [authors, List.mem_filter, List.mem_map, bne_iff_ne, ne_eq]
  exact ⟨⟨q, hq, rfl⟩, h0⟩

theorem trySend_queue (s : St) (r : Conn) (e : Env) :
    ((trySend s r e).queue = s.queue ∨ (trySend s r e).queue = s.queue ++ [(r, e)]) := by
  unfold trySend
  split
  · exact Or.inl rfl
  · split
    · exact Or.inr rfl
    · exact Or.inl rfl

theorem proj_append (l1 l2 : List (Conn × Env)) (r a : Conn) : proj (l1 ++ l2) r a = proj l1 r a ++ proj l2 r a := by
  simp [proj]

theorem proj_single (x : Conn × Env) (r a : Conn) :
    proj [x] r a = if x.1 = r ∧ x.2.aconn = a then [x.2.seq] else [] := by
  simp only [proj, List.filter_cons, List.filter_nil]
  by_cases h : x.1 = r ∧ x.2.aconn = a
  · simp [h]
  · rw [if_neg h]
    have : (x.1 == r && x.2.aconn == a) = false := by
      rcases not_and_or.mp h with h | h <;> simp [h]
    simp [this]

theorem mem_proj {l : List (Conn × Env)} {r a : Conn} {n : Nat} (h : n ∈ proj l r a) :
    ∃ x ∈ l, x.1 = r ∧ x.2.aconn = a ∧ x.2.seq = n := by
  simp only [proj, List.mem_map, List.mem_filter, Bool.and_eq_true, beq_iff_eq] at h
  obtain ⟨x, ⟨hx, h1, h2⟩, h3⟩ := h
  exact ⟨x, hx, h1, h2, h3⟩

theorem nextOf_congr {s t : St} (h : t.next = s.next) (c : Conn) : nextOf t c = nextOf s c := by
  unfold nextOf; rw [h]

/-- `Fifo` reads only `recvd`, `queue`, `pend` and `next` -/
theorem Fifo.transfer {s t : St} (hf : Fifo s) (hr : t.recvd = s.recvd) (hq : t.queue = s.queue)
    (hp : t.pend = s.pend) (hn : t.next = s.next) : Fifo t := by
  constructor
  · intro x hx h0; rw [hr, hq] at hx; rw [nextOf_congr hn]; exact hf.bound x hx h0
  · intro p hp' h0; rw [hp] at hp'; rw [nextOf_congr hn]; exact hf.pendBound p hp' h0
  · rw [hp]; exact hf.pendOne
  · intro p hp'; rw [hp] at hp'; exact hf.pendNodup p hp'
  · intro p hp' h0 x hx; rw [hp] at hp'; rw [hr, hq] at hx; exact hf.pendFresh p hp' h0 x hx
  · intro r a ha; rw [hr, hq]; exact hf.sorted r a ha

/-- appending one envelope at the end of the queue -/
theorem fifo_enqueue {s : St} (hf : Fifo s) {r : Conn} {e : Env} {pend' : List Pend}
    (hb : e.aconn ≠ 0 → e.seq < nextOf s e.aconn)
    (hlast : e.aconn ≠ 0 → ∀ x ∈ s.recvd ++ s.queue, x.1 = r → x.2.aconn = e.aconn → x.2.seq < e.seq)
    (hpb : ∀ p ∈ pend', p.env.aconn ≠ 0 → p.env.seq < nextOf s p.env.aconn)
    (hpo : (authors pend').Nodup) (hpn : ∀ p ∈ pend', p.targets.Nodup)
    (hpf : ∀ p ∈ pend', p.env.aconn ≠ 0 → ∀ x ∈ s.recvd ++ (s.queue ++ [(r, e)]), x.2.aconn = p.env.aconn →
      x.1 ∈ p.targets → x.2.seq < p.env.seq) :
    Fifo { s with queue := s.queue ++ [(r, e)], pend := pend' } := by
  constructor
  · intro x hx h0
    simp only [List.mem_append, List.mem_singleton] at hx
    rcases hx with hx | hx | hx
    · exact hf.bound x (by simp [hx]) h0
    · exact hf.bound x (by simp [hx]) h0
    · subst hx; exact hb h0
  · exact hpb
  · exact hpo
  · exact hpn
  · exact hpf
  · intro r' a ha
    show (proj (s.recvd ++ (s.queue ++ [(r, e)])) r' a).Pairwise (· < ·)
    rw [← List.append_assoc, proj_append, proj_single]
    split
    · rename_i hc
      obtain ⟨rfl, rfl⟩ := hc
      rw [List.pairwise_append]
      refine ⟨hf.sorted _ _ ha, by simp, ?_⟩
      intro n hn m hm
      simp only [List.mem_singleton] at hm
      subst hm
      obtain ⟨x, hx, h1, h2, h3⟩ := mem_proj hn
      rw [← h3]
      exact hlast ha x hx h1 h2
    · simpa using hf.sorted r' a ha

theorem fifo_step {s s' : St} {a : Act} (hi : Inv s) (hf : Fifo s) (hs : step s a = some s') : Fifo s' := by
  cases a with
  | join sid c p =>
    simp only [step] at hs
    split at hs
    · cases hs
    · cases hs; exact { hf with }
  | leave c =>
    simp only [step] at hs
    split at hs
    · cases hs
    · split at hs <;> (cases hs; exact { hf with })
  | hangup c =>
    simp only [step] at hs
    split at hs
    · cases hs
    · cases hs; exact { hf with }
  | closeSession sid =>
    simp only [step] at hs
    split at hs
    · cases hs
    · cases hs; exact { hf with }
  | sys sid body =>
    simp only [step] at hs
    cases hs
    refine { hf with pendBound := ?_, pendOne := ?_, pendNodup := ?_, pendFresh := ?_ }
    · intro p hp h0
      simp only [List.mem_append, List.mem_singleton] at hp
      rcases hp with hp | hp
      · exact hf.pendBound p hp h0
      · subst hp; exact absurd rfl h0
    · show (authors (s.pend ++ _)).Nodup
      rw [authors_append, authors_cons]
      simpa [authors] using hf.pendOne
    · intro p hp
      simp only [List.mem_append, List.mem_singleton] at hp
      rcases hp with hp | hp
      · exact hf.pendNodup p hp
      · subst hp
        exact hi.memNodup.sublist (List.Sublist.map _ List.filter_sublist)
    · intro p hp h0
      simp only [List.mem_append, List.mem_singleton] at hp
      rcases hp with hp | hp
      · exact hf.pendFresh p hp h0
      · subst hp; exact absurd rfl h0
  | msg c raw =>
    simp only [step] at hs
    split at hs
    · cases hs
    · rename_i me hme
      have hmem : me ∈ s.socks := List.mem_of_find?_eq_some hme
      have hmc : me.conn = c := by simpa using List.find?_some hme
      have hc0 : c ≠ 0 := by rw [← hmc]; exact hi.everNZ me (hi.sockEver me hmem)
      split at hs
      · cases hs
      · rename_i hnp
        have hnp' : ∀ p ∈ s.pend, p.env.aconn ≠ c := by
          intro p hp hc
          apply hnp
          simp only [List.any_eq_true, beq_iff_eq]
          exact ⟨p, hp, hc⟩
        split at hs
        · cases hs; exact hf
        · rename_i claimed tgt body hacc
          -- the state with the author's counter advanced
          have hb1 : ∀ x ∈ s.recvd ++ s.queue, x.2.aconn ≠ 0 →
              x.2.seq < nextOf { s with next := bump s c } x.2.aconn := by
            intro x hx h0
            by_cases hxc : x.2.aconn = c
            · rw [hxc, nextOf_bump_self]
              have := hf.bound x hx h0
              rw [hxc] at this
              omega
            · rw [nextOf_bump_other _ _ _ hxc]
              exact hf.bound x hx h0
          have hpb1 : ∀ p ∈ s.pend, p.env.aconn ≠ 0 → p.env.seq < nextOf { s with next := bump s c } p.env.aconn := by
            intro p hp h0
            rw [nextOf_bump_other _ _ _ (hnp' p hp)]
            exact hf.pendBound p hp h0
          have h1 : Fifo { s with next := bump s c } :=
            { hf with bound := hb1, pendBound := hpb1 }
          have hlast : ∀ x ∈ s.recvd ++ s.queue, x.2.aconn = c → x.2.seq < nextOf s c := by
            intro x hx hxc
            have := hf.bound x hx (by rw [hxc]; exact hc0)
            rwa [hxc] at this
          split at hs
          · split at hs
            · rename_i m hlook
              cases hs
              obtain ⟨f1, f2, f3, f4, f5, f6, f7, f8, f9⟩ := trySend_fields { s with next := bump s c } m.conn ⟨me.peer, tgt, body, c, me.sid, nextOf s c⟩
              rcases trySend_queue { s with next := bump s c } m.conn ⟨me.peer, tgt, body, c, me.sid, nextOf s c⟩ with hq | hq
              · exact h1.transfer f8 hq f5 f6
              · have key := fifo_enqueue (s := { s with next := bump s c }) h1 (r := m.conn)
                  (e := ⟨me.peer, tgt, body, c, me.sid, nextOf s c⟩) (pend' := s.pend)
                  (by intro _; simp only; rw [nextOf_bump_self]; omega)
                  (by intro _ x hx _ hxc; exact hlast x hx hxc)
                  hpb1 hf.pendOne hf.pendNodup
                  (by
                    intro p hp h0 x hx hxa hxt
                    simp only [List.mem_append, List.mem_singleton] at hx
                    rcases hx with hx | hx | hx
                    · exact hf.pendFresh p hp h0 x (by simp [hx]) hxa hxt
                    · exact hf.pendFresh p hp h0 x (by simp [hx]) hxa hxt
                    · subst hx
                      exact absurd hxa.symm (hnp' p hp))
                exact key.transfer f8 hq f5 f6
            · cases hs
              exact { h1 with }
          · cases hs
            refine { h1 with pendBound := ?_, pendOne := ?_, pendNodup := ?_, pendFresh := ?_ }
            · intro p hp h0
              simp only [List.mem_append, List.mem_singleton] at hp
              rcases hp with hp | hp
              · exact hpb1 p hp h0
              · subst hp
                simp only
                refine Nat.lt_of_lt_of_eq (Nat.lt_succ_self (nextOf s c)) ?_
                exact ((nextOf_congr (s := { s with next := bump s c }) rfl c).trans (nextOf_bump_self s c)).symm
            · show (authors (s.pend ++ _)).Nodup
              rw [authors_append, authors_cons]
              simp only [bne_iff_ne, ne_eq, hc0, not_false_eq_true, if_true, authors, List.map_nil, List.filter_nil,
                List.append_nil]
              rw [List.nodup_append]
              refine ⟨hf.pendOne, by simp, ?_⟩
              intro a ha b hb
              simp only [List.mem_singleton] at hb
              subst hb
              simp only [authors, List.mem_filter, List.mem_map] at ha
              obtain ⟨⟨p, hp, rfl⟩, _⟩ := ha
              exact hnp' p hp
            · intro p hp
              simp only [List.mem_append, List.mem_singleton] at hp
              rcases hp with hp | hp
              · exact hf.pendNodup p hp
              · subst hp
                exact (hi.memNodup.sublist (List.Sublist.map _ List.filter_sublist)).sublist List.filter_sublist
            · intro p hp h0 x hx hxa hxt
              simp only [List.mem_append, List.mem_singleton] at hp
              rcases hp with hp | hp
              · exact hf.pendFresh p hp h0 x hx hxa hxt
              · subst hp
                exact hlast x hx hxa
  | bstep i r =>
    simp only [step] at hs
    split at hs
    · cases hs
    · rename_i p hp
      have hpm : p ∈ s.pend := List.mem_of_getElem? hp
      split at hs
      · rename_i hr
        cases hs
        obtain ⟨l1, l2, hL, hE, hS⟩ := split_at hp
        obtain ⟨f1, f2, f3, f4, f5, f6, f7, f8, f9⟩ := trySend_fields s r p.env
        have hnd := hf.pendNodup p hpm
        have hrest : (p.targets.erase r).Nodup := hnd.erase r
        have hrnot : r ∉ p.targets.erase r := fun hc => ((hnd.mem_erase_iff).mp hc).1 rfl
        -- the new list of broadcasts in progress
        have hpend : ∀ q ∈ (if p.targets.erase r = [] then (trySend s r p.env).pend.eraseIdx i
            else (trySend s r p.env).pend.set i ⟨p.env, p.targets.erase r⟩),
            (q ∈ l1 ∨ q ∈ l2) ∨ q = ⟨p.env, p.targets.erase r⟩ := by
          intro q hq
          rw [f5] at hq
          split at hq
          · rw [hE] at hq
            exact Or.inl (List.mem_append.mp hq)
          · rw [hS] at hq
            simp only [List.mem_append, List.mem_cons] at hq
            tauto
        have hold : ∀ q, (q ∈ l1 ∨ q ∈ l2) → q ∈ s.pend := by
          intro q hq; rw [hL]; simp only [List.mem_append, List.mem_cons]; tauto
        have hauth : (authors (if p.targets.erase r = [] then (trySend s r p.env).pend.eraseIdx i
            else (trySend s r p.env).pend.set i ⟨p.env, p.targets.erase r⟩)).Nodup := by
          have h0 := hf.pendOne
          rw [hL, authors_append, authors_cons] at h0
          rw [f5]
          split
          · rw [hE, authors_append]
            exact h0.sublist (List.Sublist.append (List.Sublist.refl _) (List.sublist_append_right _ _))
          · rw [hS, authors_append, authors_cons]
            exact h0
        have hother : ∀ q, (q ∈ l1 ∨ q ∈ l2) → p.env.aconn ≠ 0 → q.env.aconn ≠ p.env.aconn := by
          intro q hq h0 hc
          have hno := hf.pendOne
          rw [hL, authors_append, authors_cons] at hno
          simp only [bne_iff_ne, ne_eq, h0, not_false_eq_true, if_true] at hno
          rw [List.nodup_append] at hno
          obtain ⟨_, hn2, hdis⟩ := hno
          rw [List.nodup_append] at hn2
          obtain ⟨_, _, hdis2⟩ := hn2
          have hq0 : q.env.aconn ≠ 0 := by rw [hc]; exact h0
          rcases hq with hq | hq
          · exact hdis _ (mem_authors hq hq0) _ (List.mem_append_left _ (List.mem_singleton.mpr rfl)) hc
          · exact hdis2 _ (List.mem_singleton.mpr rfl) _ (mem_authors hq hq0) hc.symm
        rcases trySend_queue s r p.env with hq | hq
        · -- not queued (full): only the target list shrinks
          have key : Fifo { s with pend := (if p.targets.erase r = [] then (trySend s r p.env).pend.eraseIdx i
              else (trySend s r p.env).pend.set i ⟨p.env, p.targets.erase r⟩) } := by
            constructor
            · exact hf.bound
            · intro q hq' h0
              rcases hpend q hq' with h' | h'
              · exact hf.pendBound q (hold q h') h0
              · subst h'; exact hf.pendBound p hpm h0
            · exact hauth
            · intro q hq'
              rcases hpend q hq' with h' | h'
              · exact hf.pendNodup q (hold q h')
              · subst h'; exact hrest
            · intro q hq' h0 x hx hxa hxt
              rcases hpend q hq' with h' | h'
              · exact hf.pendFresh q (hold q h') h0 x hx hxa hxt
              · subst h'; exact hf.pendFresh p hpm h0 x hx hxa (List.mem_of_mem_erase hxt)
            · exact hf.sorted
          exact key.transfer f8 hq rfl f6
        · have key := fifo_enqueue (s := s) hf (r := r) (e := p.env)
            (pend' := (if p.targets.erase r = [] then (trySend s r p.env).pend.eraseIdx i
              else (trySend s r p.env).pend.set i ⟨p.env, p.targets.erase r⟩))
            (fun h0 => hf.pendBound p hpm h0)
            (fun h0 x hx hx1 hxa => hf.pendFresh p hpm h0 x hx hxa (by rw [hx1]; exact hr))
            (by
              intro q hq' h0
              rcases hpend q hq' with h' | h'
              · exact hf.pendBound q (hold q h') h0
              · subst h'; exact hf.pendBound p hpm h0)
            hauth
            (by
              intro q hq'
              rcases hpend q hq' with h' | h'
              · exact hf.pendNodup q (hold q h')
              · subst h'; exact hrest)
            (by
              intro q hq' h0 x hx hxa hxt
              simp only [List.mem_append, List.mem_singleton] at hx
              rcases hpend q hq' with h' | h'
              · rcases hx with hx | hx | hx
                · exact hf.pendFresh q (hold q h') h0 x (by simp [hx]) hxa hxt
                · exact hf.pendFresh q (hold q h') h0 x (by simp [hx]) hxa hxt
                · subst hx
                  simp only at hxa
                  exact absurd hxa.symm (hother q h' (by rw [hxa]; exact h0))
              · subst h'
                rcases hx with hx | hx | hx
                · exact hf.pendFresh p hpm h0 x (by simp [hx]) hxa (List.mem_of_mem_erase hxt)
                · exact hf.pendFresh p hpm h0 x (by simp [hx]) hxa (List.mem_of_mem_erase hxt)
                · subst hx
                  exact absurd hxt hrnot)
          exact key.transfer f8 hq rfl f6
      · cases hs
  | deliver r =>
    simp only [step] at hs
    split at hs
    · rename_i e rest hp
      cases hs
      obtain ⟨l1, l2, h1, h2, h3⟩ := popFirst_spec hp
      have hmem : ∀ x, x ∈ (s.recvd ++ [(r, e)]) ++ rest ↔ x ∈ s.recvd ++ s.queue := by
        intro x
        rw [h1, h2]
        simp only [List.mem_append, List.mem_singleton, List.mem_cons]
        tauto
      have hproj : ∀ r' a, proj ((s.recvd ++ [(r, e)]) ++ rest) r' a = proj (s.recvd ++ s.queue) r' a := by
        intro r' a
        rw [h1, h2]
        simp only [proj_append]
        have hcons : proj ((r, e) :: l2) r' a = proj [(r, e)] r' a ++ proj l2 r' a := by
          rw [← proj_append]; rfl
        rw [hcons]
        by_cases hr : r' = r
        · subst hr
          have : proj l1 r' a = [] := by
            simp only [proj, List.map_eq_nil_iff, List.filter_eq_nil_iff, Bool.and_eq_true, beq_iff_eq, not_and]
            intro x hx hc
            exact absurd hc (h3 x hx)
          simp [this]
        · have : proj [(r, e)] r' a = [] := by
            rw [proj_single]
            simp [Ne.symm hr]
          simp [this]
      constructor
      · intro x hx; exact hf.bound x ((hmem x).mp hx)
      · exact hf.pendBound
      · exact hf.pendOne
      · exact hf.pendNodup
      · intro p hp' h0 x hx; exact hf.pendFresh p hp' h0 x ((hmem x).mp hx)
      · intro r' a ha
        show (proj ((s.recvd ++ [(r, e)]) ++ rest) r' a).Pairwise (· < ·)
        rw [hproj]; exact hf.sorted r' a ha
    · cases hs

/-! ## the property -/

theorem reachable_inv {cap : Nat} {s : St} (h : Reachable cap s) : Inv s ∧ Fifo s := by
  induction h with
  | init => exact ⟨inv_init cap, fifo_init cap⟩
  | step a _ hs ih => exact ⟨step_inv ih.1 hs, fifo_step ih.1 ih.2 hs⟩

/-- everything a connection holds (queued, already given to its socket, or skipped because its queue was full) -/
def held (s : St) : List (Conn × Env) := s.queue ++ s.recvd ++ s.dropped

theorem held_good {cap : Nat} {s : St} (h : Reachable cap s) {x : Conn × Env} (hx : x ∈ held s) : Good s x := by
  have hi := (reachable_inv h).1
  simp only [held, List.mem_append] at hx
  rcases hx with (hx | hx) | hx
  · exact hi.storedQ x hx
  · exact hi.storedR x hx
  · exact hi.storedD x hx

/-- **Isolation.** An envelope held for connection `r` was written inside `r`'s own session — by the server for that
session, or by a connection of that session. Nobody in another session ever sees it. -/
theorem C10_isolation {cap : Nat} {s : St} (h : Reachable cap s) {r : Conn} {e : Env} (hx : (r, e) ∈ held s)
    {m : Member} (hm : m ∈ s.ever) (hr : m.conn = r) :
    e.asid = m.sid ∧ (e.aconn ≠ 0 → ∃ a ∈ s.ever, a.conn = e.aconn ∧ a.sid = m.sid) := by
  have hi := (reachable_inv h).1
  obtain ⟨hau, m', hm', hc', hs', _⟩ := held_good h hx
  have : m' = m := ever_conn_unique hi hm' hm (by rw [hc', hr])
  subst this
  refine ⟨hs'.symm, ?_⟩
  intro h0
  rcases hau with ⟨h1, _⟩ | ⟨a, ha, h1, _, h3⟩
  · exact absurd h1 h0
  · exact ⟨a, ha, h1, by rw [h3, hs']⟩

/-- **True sender.** The `from` a recipient sees is the peer id the author connected with — whatever the author wrote
into the field (`Raw.env`'s `frm` is arbitrary) — and "server" (0) only for envelopes the server itself made. -/
theorem C10_from {cap : Nat} {s : St} (h : Reachable cap s) {r : Conn} {e : Env} (hx : (r, e) ∈ held s) :
    (e.aconn = 0 ∧ e.frm = 0) ∨ (∃ a ∈ s.ever, a.conn = e.aconn ∧ e.frm = a.peer) := by
  obtain ⟨hau, _⟩ := held_good h hx
  rcases hau with h1 | ⟨a, ha, h1, h2, _⟩
  · exact Or.inl h1
  · exact Or.inr ⟨a, ha, h1, h2.symm⟩

/-- **Addressed messages reach only the named peer**; unaddressed client messages never come back to the author's
own peer id. -/
theorem C10_recipient {cap : Nat} {s : St} (h : Reachable cap s) {r : Conn} {e : Env} (hx : (r, e) ∈ held s)
    {m : Member} (hm : m ∈ s.ever) (hr : m.conn = r) :
    (e.to ≠ 0 → m.peer = e.to) ∧ (e.to = 0 → e.aconn ≠ 0 → m.peer ≠ e.frm) := by
  have hi := (reachable_inv h).1
  obtain ⟨_, m', hm', hc', _, h1, h2⟩ := held_good h hx
  have : m' = m := ever_conn_unique hi hm' hm (by rw [hc', hr])
  subst this
  exact ⟨h1, h2⟩

/-- **No duplication, no reordering.** In the stream of any recipient, the messages of any one author connection
appear with strictly increasing positions of the author's own stream. -/
theorem C10_fifo {cap : Nat} {s : St} (h : Reachable cap s) (r a : Conn) (ha : a ≠ 0) :
    (((stream s r).filter (fun e => e.aconn == a)).map (·.seq)).Pairwise (· < ·) := by
  have := (reachable_inv h).2.sorted r a ha
  have e : ((stream s r).filter (fun e => e.aconn == a)).map (·.seq) = proj (s.recvd ++ s.queue) r a := by
    simp only [stream, proj, List.filter_map, List.map_map, List.filter_filter]
    congr 1
    apply List.filter_congr
    intro x _
    simp [Bool.and_comm]
  rw [e]; exact this

theorem C10_no_duplicates {cap : Nat} {s : St} (h : Reachable cap s) (r a : Conn) (ha : a ≠ 0) :
    (((stream s r).filter (fun e => e.aconn == a)).map (·.seq)).Nodup :=
  (C10_fifo h r a ha).imp (fun hlt => Nat.ne_of_lt hlt)

/-- the broadcast never panics (send on a closed channel) -/
theorem C10_no_panic {cap : Nat} {s : St} (h : Reachable cap s) : s.panicked = false := (reachable_inv h).1.noPanic

/-! ### what one inbound message does (for every content) -/

/-- malformed input (not JSON, wrong version, missing type or id) has no effect at all -/
theorem C10_malformed_ignored {s s' : St} {c : Conn} {raw : Raw} (hacc : accepted raw = none)
    (hs : step s (.msg c raw) = some s') : s' = s := by
  simp only [step] at hs
  split at hs
  · cases hs
  · split at hs
    · cases hs
    · simp only [hacc] at hs
      cases hs; rfl

/-- **Unknown addressee**: exactly one `peer_not_found`, to the author only; nothing is queued anywhere. -/
theorem C10_unknown_addressee {s s' : St} {c : Conn} {raw : Raw} {me : Member} {claimed tgt : Peer} {body : Nat}
    (hme : s.socks.find? (fun m => m.conn == c) = some me) (hacc : accepted raw = some (claimed, tgt, body))
    (ht : tgt ≠ 0) (hl : lookup s me.sid tgt = none) (hs : step s (.msg c raw) = some s') :
    s'.errs = s.errs ++ [(c, tgt)] ∧ s'.queue = s.queue ∧ s'.recvd = s.recvd ∧ s'.dropped = s.dropped ∧ s'.pend = s.pend := by
  simp only [step, hme, hacc] at hs
  split at hs
  · cases hs
  · simp only [ht, ne_eq, not_false_eq_true, if_true, hl] at hs
    cases hs
    exact ⟨rfl, rfl, rfl, rfl, rfl⟩

/-- **Addressed delivery, not lost while the recipient keeps reading**: the named peer's registered connection gets
the envelope — with `from` = the author's peer id — appended to its queue, unless that queue is full. -/
theorem C10_addressed_delivered {s s' : St} {c : Conn} {raw : Raw} {me m : Member} {claimed tgt : Peer} {body : Nat}
    (hi : Inv s) (hme : s.socks.find? (fun m => m.conn == c) = some me)
    (hacc : accepted raw = some (claimed, tgt, body)) (ht : tgt ≠ 0) (hl : lookup s me.sid tgt = some m)
    (hroom : queueLen s m.conn < s.cap) (hs : step s (.msg c raw) = some s') :
    s'.queue = s.queue ++ [(m.conn, ⟨me.peer, tgt, body, c, me.sid, nextOf s c⟩)] ∧ s'.errs = s.errs := by
  simp only [step, hme, hacc] at hs
  split at hs
  · cases hs
  · simp only [ht, ne_eq, not_false_eq_true, if_true, hl] at hs
    cases hs
    have hopen := hi.memOpen m (lookup_mem hl).1
    unfold trySend
    simp only [hopen, if_false]
    have : queueLen { s with next := bump s c } m.conn < s.cap := hroom
    simp [this]

/-- **Unaddressed messages go to every other peer of the session**: the target list is exactly the registered
connections of the author's session minus the one registered under the author's peer id. -/
theorem C10_broadcast_targets {s s' : St} {c : Conn} {raw : Raw} {me : Member} {claimed : Peer} {body : Nat}
    (hme : s.socks.find? (fun m => m.conn == c) = some me) (hacc : accepted raw = some (claimed, 0, body))
    (hs : step s (.msg c raw) = some s') :
    ∃ p, s'.pend = s.pend ++ [p] ∧ p.env.frm = me.peer ∧ p.env.aconn = c ∧
      ∀ t, t ∈ p.targets ↔ (∃ m ∈ s.members, m.sid = me.sid ∧ m.conn = t) ∧
        some t ≠ (lookup s me.sid me.peer).map (·.conn) := by
  simp only [step, hme, hacc] at hs
  split at hs
  · cases hs
  · simp only [ne_eq, not_true_eq_false, if_false] at hs
    cases hs
    refine ⟨_, rfl, rfl, rfl, ?_⟩
    intro t
    simp only [membersOf, List.mem_filter, List.mem_map, beq_iff_eq, bne_iff_ne, ne_eq]
    constructor
    · rintro ⟨⟨m, ⟨hm, hsid⟩, rfl⟩, hne⟩
      exact ⟨⟨m, hm, hsid, rfl⟩, hne⟩
    · rintro ⟨⟨m, hm, hsid, rfl⟩, hne⟩
      exact ⟨⟨m, ⟨hm, hsid⟩, rfl⟩, hne⟩

/-- every target of a broadcast in progress gets its attempt, and it is queued when there is room -/
theorem C10_broadcast_step {s : St} (hi : Inv s) {i : Nat} {p : Pend} {r : Conn} (hp : s.pend[i]? = some p)
    (hr : r ∈ p.targets) :
    ∃ s', step s (.bstep i r) = some s' ∧ (queueLen s r < s.cap → s'.queue = s.queue ++ [(r, p.env)]) := by
  simp only [step, hp, hr, if_true]
  refine ⟨_, rfl, ?_⟩
  intro hroom
  obtain ⟨m, hm, hmc, _⟩ := hi.pendTargets p (List.mem_of_getElem? hp) r hr
  have hopen := hi.memOpen m hm
  rw [hmc] at hopen
  unfold trySend
  simp [hopen, hroom]

/-! ### non-vacuity: two sessions, a spoofed `from`, an unknown addressee, a broadcast, a reconnect -/

def demo : List Act :=
  [.join 1 1 10, .join 1 2 20, .join 2 3 10, .join 2 4 30,
   .msg 1 (.env 1 true true 99 20 7),          -- addressed, claims to be peer 99
   .msg 1 (.env 1 true true 0 77 8),           -- unknown addressee
   .msg 1 (.env 2 true true 0 0 9),            -- wrong version: ignored
   .msg 3 (.env 1 true true 10 0 5),           -- broadcast in session 2 by the other peer "10"
   .bstep 0 4, .deliver 2, .deliver 4,
   .join 1 5 20,                               -- peer 20 reconnects: connection 2 is replaced
   .msg 1 (.env 1 true true 0 20 6), .deliver 5]

def demoState : St := (run (init 4) demo).getD (init 4)

example : run (init 4) demo ≠ none := by decide

theorem reachable_run {cap : Nat} {s : St} (hs : Reachable cap s) (as : List Act) {s' : St}
    (h : run s as = some s') : Reachable cap s' := by
  induction as generalizing s with
  | nil => simp only [run, Option.some.injEq] at h; exact h ▸ hs
  | cons a as ih =>
    simp only [run] at h
    split at h
    · rename_i s1 h1
      exact ih (Reachable.step a hs h1) h
    · cases h

example : Reachable 4 demoState := reachable_run (Reachable.init) demo (s' := demoState) (by decide)

example : demoState.recvd = [(2, ⟨10, 20, 7, 1, 1, 0⟩), (4, ⟨10, 0, 5, 3, 2, 0⟩), (5, ⟨10, 20, 6, 1, 1, 2⟩)] ∧
    demoState.errs = [(1, 77)] ∧ demoState.queue = [] ∧ demoState.closedCh = [2] := by decide

/-! ## the routing decisions of the source, as regenerated on this run (xlate, `Gen/Shapes.lean`) -/

open TV.Gen.Shapes in
/-- the handler overwrites `from` with the connection's peer id, routes addressed envelopes by (the connection's session,
the envelope's `to`) and unaddressed ones to the connection's session except the connection's peer id; the server's own
broadcasts go to the connection's session. The model's `msg` step was transcribed from exactly these expressions. -/
theorem C10_source_shapes :
    handler_from_overwrite = ["peerID"] ∧
    handler_sendto_args = ["sess.ID, env.To, env"] ∧
    handler_bcast_except_args = ["sess.ID, peerID, env"] ∧
    handler_bcast_args = ["sess.ID, peerJoinedEnv", "sess.ID, peerLeftEnv"] := by decide

end TV.C10
