import ThruVerif.Model.Codec
import ThruVerif.Gen.Order
import ThruVerif.Gen.Consts
/-!
# C15 — Malformed or hostile protocol input produces an error, not a crash

The decoder model of `Model/Codec.lean` is total by construction (every read of ended input yields
`eof` / `ueof`, there is no waiting step). Here: it never consumes more than it was given, what it
reserves is bounded by what it received, and the data-frame / FileBegin guards exclude the states in
which the real code would panic or index out of range.
-/
namespace TV.C15
open TV TV.Codec

/-! ### consumed bytes: the decoder returns a suffix of its input -/

theorem getU_suffix {w : Nat} {bs r : Bytes} {v : Nat} (h : getU w bs = .ok (v, r)) : ∃ c, bs = c ++ r := by
  unfold getU at h
  split at h
  · cases h
  · rename_i hd r' ht
    cases h
    exact ⟨hd, (takeN_ok ht).1⟩

theorem decGroup_suffix {ws : List Nat} {bs r : Bytes} {vs : List Nat} (h : decGroup ws bs = .ok (vs, r)) :
    ∃ c, bs = c ++ r := by
  induction ws generalizing bs vs with
  | nil => simp [decGroup] at h; exact ⟨[], by simp [h.2]⟩
  | cons w ws ih =>
    simp only [decGroup] at h
    split at h
    · cases h
    · rename_i v r1 hg
      split at h
      · cases h
      · rename_i vs' r' hd
        cases h
        obtain ⟨c1, hc1⟩ := getU_suffix hg
        obtain ⟨c2, hc2⟩ := ih hd
        exact ⟨c1 ++ c2, by rw [hc1, hc2]; simp⟩

theorem decGroups_suffix {ws : List Nat} {k : Nat} {bs r : Bytes} {gs : List (List Nat)}
    (h : decGroups ws k bs = .ok (gs, r)) : ∃ c, bs = c ++ r := by
  induction k generalizing bs gs with
  | zero => simp [decGroups] at h; exact ⟨[], by simp [h.2]⟩
  | succ k ih =>
    simp only [decGroups] at h
    split at h
    · cases h
    · rename_i g r1 hg
      split at h
      · cases h
      · rename_i gs' r' hd
        cases h
        obtain ⟨c1, hc1⟩ := decGroup_suffix hg
        obtain ⟨c2, hc2⟩ := ih hd
        exact ⟨c1 ++ c2, by rw [hc1, hc2]; simp⟩

theorem decF_suffix {f : Fld} {bs r : Bytes} {v : Val} (h : decF f bs = .ok (v, r)) : ∃ c, bs = c ++ r := by
  cases f with
  | tag b =>
    simp only [decF] at h
    split at h
    · cases h
    · rename_i hd r1 ht
      split at h
      · cases h; exact ⟨hd, (takeN_ok ht).1⟩
      · cases h
  | uint w =>
    simp only [decF] at h
    split at h
    · cases h
    · rename_i v' r1 hg; cases h; exact getU_suffix hg
  | lenBytes w lim =>
    simp only [decF] at h
    split at h
    · cases h
    · rename_i len r1 hg
      obtain ⟨c1, hc1⟩ := getU_suffix hg
      cases ht : takeN len r1 with
      | error e =>
        exfalso
        cases lim with
        | none => simp [ht] at h
        | some l => by_cases hl : l < len <;> simp [hl, ht] at h
      | ok p =>
        obtain ⟨b, r2⟩ := p
        have hr : r2 = r := by
          cases lim with
          | none => simp [ht] at h; exact h.2
          | some l =>
            by_cases hl : l < len
            · simp [hl] at h
            · simp [hl, ht] at h; exact h.2
        subst hr
        exact ⟨c1 ++ b, by rw [hc1, (takeN_ok ht).1]; simp⟩
  | rep w ws =>
    simp only [decF] at h
    split at h
    · cases h
    · rename_i cnt r1 hg
      split at h
      · cases h
      · rename_i gs r2 hd
        cases h
        obtain ⟨c1, hc1⟩ := getU_suffix hg
        obtain ⟨c2, hc2⟩ := decGroups_suffix hd
        exact ⟨c1 ++ c2, by rw [hc1, hc2]; simp⟩

theorem decL_suffix {fs : List Fld} {bs r : Bytes} {vs : List Val} (h : decL fs bs = .ok (vs, r)) :
    ∃ c, bs = c ++ r := by
  induction fs generalizing bs vs with
  | nil => simp [decL] at h; exact ⟨[], by simp [h.2]⟩
  | cons f fs ih =>
    simp only [decL] at h
    split at h
    · cases h
    · rename_i v r1 hf
      split at h
      · cases h
      · rename_i vs' r' hd
        cases h
        obtain ⟨c1, hc1⟩ := decF_suffix hf
        obtain ⟨c2, hc2⟩ := ih hd
        exact ⟨c1 ++ c2, by rw [hc1, hc2]; simp⟩

/-- **C15_total.** On any byte string followed by end of input `readControlMessage` terminates with
    an error or with a record, having consumed a non-empty prefix and left the rest untouched. -/
theorem C15_total (maxPath : Nat) (bs : Bytes) :
    (∃ e, decode maxPath bs = .error e) ∨
    (∃ r rest c, decode maxPath bs = .ok (r, rest) ∧ bs = c ++ rest ∧ c ≠ []) := by
  cases hd : decode maxPath bs with
  | error e => exact Or.inl ⟨e, rfl⟩
  | ok p =>
    obtain ⟨r, rest⟩ := p
    right
    unfold decode at hd
    split at hd
    · cases hd
    · rename_i h0 r0 ht
      split at hd
      · cases hd
      · rename_i k hk
        split at hd
        · cases hd
        · rename_i vs r1 hl
          split at hd
          · cases hd
            obtain ⟨c2, hc2⟩ := decL_suffix hl
            have ht' := takeN_ok ht
            refine ⟨r, rest, h0 ++ c2, rfl, by rw [ht'.1, hc2]; simp, ?_⟩
            intro he
            have : h0 = [] := by
              cases h0 with
              | nil => rfl
              | cons x xs => simp at he
            rw [this] at ht'; simp at ht'
          · cases hd

/-- **C15_eof.** Ended input at a record boundary is `eof`; no record is invented. -/
theorem C15_eof (maxPath : Nat) : decode maxPath [] = .error .eof := by
  simp [decode, takeN]

/-- **C15_unknown_tag.** A byte that is not one of the nine record tags is refused. -/
theorem C15_unknown_tag (maxPath : Nat) (b : UInt8) (rest : Bytes) (h : kindOfTag b.toNat = none) :
    decode maxPath (b :: rest) = .error (.badTag b.toNat) := by
  simp [decode, takeN, beVal, h]

/-! ### reservation: what the control decoders allocate for peer-supplied lengths -/

/-- threshold above which `readBytesControl` grows its buffer with the data received -/
def step : Nat := 65536

/-- bytes reserved by the read side of one field on input `bs` (upper bound; follows the `make` sites
    listed in `Gen.Order.makeSites` and `readBytesControl` / the CreditBatch append loop) -/
def allocF : Fld → Bytes → Nat
  | .tag _, _ => 1
  | .uint w, _ => w
  | .lenBytes w lim, bs =>
    match getU w bs with
    | .error _ => w
    | .ok (len, r) =>
      if (match lim with | some l => decide (len > l) | none => false) then w
      else if len ≤ step then w + len
      else w + 2 * (min len r.length) + 1024
  | .rep w ws, bs =>
    match getU w bs with
    | .error _ => w
    | .ok (cnt, r) => w + 16 * (min cnt (step / 16)) + 2 * 16 * (min cnt (r.length / ws.sum)) + 16

theorem allocF_bound (f : Fld) (bs : Bytes) (hw : ∀ w lim, f = .lenBytes w lim → w ≤ 8) (hr : ∀ w ws, f = .rep w ws → w ≤ 8 ∧ 12 ≤ ws.sum)
    (hu : ∀ w, f = .uint w → w ≤ 8) : allocF f bs ≤ 3 * bs.length + step + 1040 := by
  cases f with
  | tag b => simp [allocF, step]
  | uint w => have := hu w rfl; simp [allocF, step]; omega
  | lenBytes w lim =>
    have := hw w lim rfl
    simp only [allocF]
    split
    · simp [step]; omega
    · rename_i len r hg
      obtain ⟨c, hc⟩ := getU_suffix hg
      have hl : r.length ≤ bs.length := by rw [hc]; simp
      have hmin : min len r.length ≤ r.length := Nat.min_le_right _ _
      have hgoal : ∀ over : Bool, (if over = true then w else if len ≤ step then w + len else w + 2 * min len r.length + 1024)
          ≤ 3 * bs.length + step + 1040 := by
        intro over
        cases over with
        | true => simp only [if_true, step]; omega
        | false =>
          simp only [Bool.false_eq_true, if_false]
          split
          · rename_i hle; simp only [step] at hle ⊢; omega
          · simp only [step]; omega
      exact hgoal _
  | rep w ws =>
    obtain ⟨h1, h2⟩ := hr w ws rfl
    simp only [allocF]
    split
    · simp [step]; omega
    · rename_i cnt r hg
      obtain ⟨c, hc⟩ := getU_suffix hg
      have hl : r.length ≤ bs.length := by rw [hc]; simp
      have ha : min cnt (step / 16) ≤ step / 16 := Nat.min_le_right _ _
      have hb : min cnt (r.length / ws.sum) ≤ r.length / ws.sum := Nat.min_le_right _ _
      have hc' : r.length / ws.sum ≤ r.length / 12 := Nat.div_le_div_left h2 (by decide)
      have hd : 12 * (r.length / 12) ≤ r.length := Nat.mul_div_le _ _
      simp [step] at *; omega

/-- **C15_alloc.** Every field of every control record reserves at most `3·received + 64 KiB + 1 KiB`,
    whatever length or count the peer announces. -/
theorem C15_alloc (maxPath : Nat) (k : Kind) (f : Fld) (hf : f ∈ k.body maxPath) (bs : Bytes) :
    allocF f bs ≤ 3 * bs.length + step + 1040 := by
  apply allocF_bound
  · intro w lim he; subst he
    cases k <;> simp [Kind.body] at hf <;> omega
  · intro w ws he; subst he
    cases k <;> simp [Kind.body] at hf
    obtain ⟨rfl, rfl⟩ := hf; decide
  · intro w he; subst he
    cases k <;> simp [Kind.body] at hf <;> omega

/-- the `make` sites of the control decoders are exactly the ones the reservation model accounts for:
    constants, 16-bit lengths, the bounded credit-batch hint and `readBytesControl`'s small-size branch -/
theorem C15_make_sites :
    TV.Gen.Order.makeSites =
      [("readBytesControl", "n", 1, false),
       ("readControlHeader", "len(controlMagic)", 1, true),
       ("readControlMessage", "1", 1, true),
       ("readCreditBatch", "0", 16, true),
       ("readFileBegin", "1", 1, true),
       ("readFileDone", "1", 1, true),
       ("readFileDone", "errLen", 1, false),
       ("readFileResumeInfo", "fileIDLen", 1, false),
       ("readRelPathControl", "relPathLen", 1, false),
       ("readResumeRequest", "fileIDLen", 1, false)] := by decide

/-! ### data frames and FileBegin: the guards that keep the reader away from panics -/

inductive FrameErr | zeroLen | outOfRange | tooLong deriving DecidableEq, Repr

/-- the checks of the data-stream reader on a frame header, in order -/
def frameCheck (total chunkSize idx len : Nat) : Option FrameErr :=
  if len = 0 then some .zeroLen
  else if idx ≥ total then some .outOfRange
  else if chunkSize > 0 ∧ len > chunkSize then some .tooLong
  else none

/-- `handleFileBegin` refuses chunk size 0, so the state a reader sees has `chunkSize > 0` -/
def beginOk (chunkSize : Nat) : Bool := decide (chunkSize > 0)

/-- **C15_no_panic.** For a file whose FileBegin was accepted, an accepted frame has a positive buffer size
    (`bufpool.New` panics on ≤ 0), fits the buffer (`buf[:chunkLen]`), and indexes a real chunk. -/
theorem C15_no_panic (total chunkSize idx len : Nat) (hb : beginOk chunkSize = true)
    (h : frameCheck total chunkSize idx len = none) : 0 < chunkSize ∧ len ≤ chunkSize ∧ 0 < len ∧ idx < total := by
  simp only [beginOk, decide_eq_true_eq] at hb
  simp only [frameCheck] at h
  split at h
  · cases h
  · split at h
    · cases h
    · split at h
      · cases h
      · rename_i h1 h2 h3
        refine ⟨hb, ?_, by omega, by omega⟩
        simp only [not_and, Nat.not_lt] at h3
        exact h3 hb

-- the inputs of probes P8 / P9, as model facts
example : beginOk 0 = false := by decide
example : frameCheck 0 64 0 3 = some .outOfRange := by decide
example : frameCheck 4 64 1 64 = none := by decide

end TV.C15
