import ThruVerif.Model.Scan
/-!
# C13 — The manifest describes exactly what will be read, once, deterministically

* `C13_names_distinct`: the top-level names `TopLevelNames` assigns to the selected paths are pairwise
  distinct for every list of base names - including names that look like the tool's own ordinal prefixes.
* `C13_sorted`: the item list is sorted by relative path.
* `C13_counts`: the counts and the byte total are the counts and the sum over the listed items.
* `C13_only_plain`: links, devices, sockets and pipes below a selected directory are never listed, so every
  listed file is a regular file whose `lstat` size is what reading it yields.
* `C13_resolver`: the sender's resolver maps a listed path back to the selection it came from.
-/
namespace TV.C13
open TV TV.Scan

theorem pick_spec {used : List Bytes} {b : Bytes} {fuel ord o : Nat} (h : pick used b fuel ord = some o) :
    ord < o ∧ (cand o b) ∉ used := by
  induction fuel generalizing ord with
  | zero => simp [pick] at h
  | succ f ih =>
    simp only [pick] at h
    split at h
    · have := ih h; exact ⟨by omega, this.2⟩
    · rename_i hc
      cases h
      exact ⟨by omega, by simpa using hc⟩

def single (all : List Bytes) (b : Bytes) : Bool := decide (countOf b all = 1)

theorem assign_nodup (all : List Bytes) : ∀ (rest used : List Bytes) (next : List (Bytes × Nat)) (ns : List Bytes),
    (∀ b ∈ rest, single all b = true → b ∈ used) → (rest.filter (single all)).Nodup →
    assign all rest used next = some ns →
    ns.Nodup ∧ ∀ n ∈ ns, (n ∈ rest ∧ single all n = true) ∨ n ∉ used := by
  intro rest
  induction rest with
  | nil =>
    intro used next ns _ _ h
    simp [assign] at h; subst h; simp
  | cons b rest ih =>
    intro used next ns hu hs h
    simp only [assign] at h
    split at h
    · rename_i hsingle
      have hsb : single all b = true := by simpa [single] using hsingle
      cases hr : assign all rest used next with
      | none => simp [hr] at h
      | some ns' =>
        simp [hr] at h; subst h
        have hs' : (rest.filter (single all)).Nodup := by
          simp only [List.filter_cons, hsb, if_true, List.nodup_cons] at hs; exact hs.2
        have hbn : b ∉ rest.filter (single all) := by
          simp only [List.filter_cons, hsb, if_true, List.nodup_cons] at hs; exact hs.1
        obtain ⟨hnd, hall⟩ := ih used next ns' (fun x hx => hu x (by simp [hx])) hs' hr
        refine ⟨?_, ?_⟩
        · rw [List.nodup_cons]
          refine ⟨?_, hnd⟩
          intro hm
          rcases hall b hm with ⟨hbr, _⟩ | hnu
          · exact hbn (by simp [List.mem_filter, hbr, hsb])
          · exact hnu (hu b (by simp) hsb)
        · intro n hn
          rcases List.mem_cons.mp hn with rfl | hn
          · exact Or.inl ⟨by simp, hsb⟩
          · rcases hall n hn with ⟨hnr, hsn⟩ | hnu
            · exact Or.inl ⟨by simp [hnr], hsn⟩
            · exact Or.inr hnu
    · rename_i hdup
      have hsb : single all b = false := by simpa [single] using hdup
      split at h
      · cases h
      · rename_i ord hp
        obtain ⟨_, hcu⟩ := pick_spec hp
        cases hr : assign all rest (cand ord b :: used) ((b, ord) :: next) with
        | none => simp [hr] at h
        | some ns' =>
          simp [hr] at h; subst h
          have hs' : (rest.filter (single all)).Nodup := by
            simpa [List.filter_cons, hsb] using hs
          obtain ⟨hnd, hall⟩ := ih (cand ord b :: used) ((b, ord) :: next) ns'
            (fun x hx hsx => by simp [hu x (by simp [hx]) hsx]) hs' hr
          refine ⟨?_, ?_⟩
          · rw [List.nodup_cons]
            refine ⟨?_, hnd⟩
            intro hm
            rcases hall _ hm with ⟨hcr, hsc⟩ | hnu
            · exact hcu (hu _ (by simp [hcr]) hsc)
            · exact hnu (by simp)
          · intro n hn
            rcases List.mem_cons.mp hn with rfl | hn
            · exact Or.inr hcu
            · rcases hall n hn with ⟨hnr, hsn⟩ | hnu
              · exact Or.inl ⟨by simp [hnr], hsn⟩
              · right; intro hc; exact hnu (by simp [hc])

theorem countOf_cons (x b : Bytes) (l : List Bytes) :
    countOf x (b :: l) = (if (b == x) = true then 1 else 0) + countOf x l := by
  simp only [countOf, List.filter_cons]
  split <;> simp <;> omega

theorem filter_single_nodup (all : List Bytes) : ∀ (l : List Bytes), (∀ b, countOf b l ≤ countOf b all) →
    (l.filter (single all)).Nodup := by
  intro l
  induction l with
  | nil => intro _; simp
  | cons b rest ih =>
    intro hle
    have hrest : ∀ x, countOf x rest ≤ countOf x all := by
      intro x
      have := hle x
      rw [countOf_cons] at this
      omega
    simp only [List.filter_cons]
    split
    · rename_i hsb
      rw [List.nodup_cons]
      refine ⟨?_, ih hrest⟩
      intro hm
      have hbr : b ∈ rest := (List.mem_filter.mp hm).1
      have h1 : countOf b all = 1 := by simpa [single] using hsb
      have h2 := hle b
      have h3 : 1 ≤ countOf b rest := by
        simp only [countOf]
        apply List.length_pos_of_mem
        exact List.mem_filter.mpr ⟨hbr, by simp⟩
      rw [countOf_cons] at h2
      simp only [beq_self_eq_true, if_true] at h2
      omega
    · exact ih hrest

/-- **C13_names_distinct.** Whatever the selected paths are called - repeated base names, names shaped like
    `1_x`, any mixture - the top-level names are pairwise distinct (and there is one per selection). -/
theorem C13_names_distinct (bases ns : List Bytes) (h : topNames bases = some ns) : ns.Nodup := by
  unfold topNames at h
  refine (assign_nodup bases bases (singles bases) [] ns ?_ ?_ h).1
  · intro b hb hs
    simp only [singles, List.mem_filter]
    exact ⟨hb, by simpa [single] using hs⟩
  · exact filter_single_nodup bases bases (fun _ => Nat.le_refl _)

/-- the P12 selection `[x, x, 1_x]` now gets three different names -/
example : topNames [[120], [120], [49, 95, 120]] = some [[50, 95, 120], [51, 95, 120], [49, 95, 120]] := by decide
example : topNames [[120], [120]] = some [[49, 95, 120], [50, 95, 120]] := by decide

/-! ### sortedness and counts -/

def Sorted : List Item → Prop
  | [] => True
  | [_] => True
  | a :: b :: rest => bytesLt b.rel a.rel = false ∧ Sorted (b :: rest)

theorem bytesLt_total (a b : Bytes) (h : bytesLt a b = false) : bytesLt b a = true ∨ a = b := by
  induction a generalizing b with
  | nil => cases b <;> simp_all [bytesLt]
  | cons x xs ih =>
    cases b with
    | nil => simp [bytesLt]
    | cons y ys =>
      simp only [bytesLt] at h ⊢
      by_cases h1 : x < y
      · simp [h1] at h
      · by_cases h2 : y < x
        · simp [h2]
        · have hxy : x = y := by
            have := UInt8.le_antisymm (UInt8.not_lt.mp h1) (UInt8.not_lt.mp h2)
            exact this.symm
          subst hxy
          simp only [h1, if_false] at h ⊢
          rcases ih ys h with h3 | h3
          · exact Or.inl h3
          · exact Or.inr (by rw [h3])

theorem insert_sorted (x : Item) (l : List Item) (h : Sorted l) : Sorted (insertItem x l) := by
  induction l with
  | nil => simp [insertItem, Sorted]
  | cons y ys ih =>
    simp only [insertItem]
    split
    · rename_i hyx
      cases ys with
      | nil =>
        simp only [insertItem, Sorted, and_true]
        -- y < x, so x is not below y
        rcases bytesLt_total x.rel y.rel (by
          cases hh : bytesLt x.rel y.rel with
          | false => rfl
          | true => exact absurd hh (by
              intro hxy
              -- both y < x and x < y is impossible
              exact bytesLt_asymm _ _ hyx hxy)) with _ | _ <;> first | assumption | skip
        all_goals (cases hh : bytesLt x.rel y.rel with
          | false => rfl
          | true => exact absurd hh (fun hxy => bytesLt_asymm _ _ hyx hxy))
      | cons z zs =>
        have ih' := ih (by simp only [Sorted] at h; exact h.2)
        simp only [insertItem] at ih' ⊢
        split
        · rename_i hzx
          simp only [Sorted] at h ⊢
          rw [if_pos hzx] at ih'
          exact ⟨h.1, ih'⟩
        · rename_i hzx
          rw [if_neg hzx] at ih'
          simp only [Sorted] at h ⊢
          refine ⟨?_, ih'⟩
          cases hh : bytesLt x.rel y.rel with
          | false => rfl
          | true => exact absurd hh (fun hxy => bytesLt_asymm _ _ hyx hxy)
    · rename_i hyx
      simp only [Sorted]
      exact ⟨by simpa using hyx, h⟩
where
  bytesLt_asymm (a b : Bytes) (h1 : bytesLt a b = true) (h2 : bytesLt b a = true) : False := by
    induction a generalizing b with
    | nil => cases b <;> simp_all [bytesLt]
    | cons x xs ih =>
      cases b with
      | nil => simp [bytesLt] at h1
      | cons y ys =>
        simp only [bytesLt] at h1 h2
        by_cases hxy : x < y
        · have : ¬ y < x := UInt8.not_lt.mpr (UInt8.le_of_lt hxy)
          simp [hxy, this] at h2
        · by_cases hyx : y < x
          · simp [hxy, hyx] at h1
          · simp only [hxy, hyx, if_false] at h1 h2
            exact ih ys h1 h2

/-- **C13_sorted.** The item list is sorted by relative path (bytewise). -/
theorem C13_sorted (xs : List Item) : Sorted (sortItems xs) := by
  unfold sortItems
  induction xs with
  | nil => simp [Sorted]
  | cons x xs ih => simp only [List.foldr_cons]; exact insert_sorted x _ ih

/-- **C13_counts.** Counts and totals are those of the listed items. -/
theorem C13_counts (table : List Entry) (sels : List Sel) (m : Manifest) (h : scanPaths table sels = some m) :
    m.fileCount = (m.items.filter (!·.isDir)).length ∧ m.folderCount = (m.items.filter (·.isDir)).length ∧
    m.totalBytes = ((m.items.filter (!·.isDir)).map (·.size)).sum ∧ m.fileCount + m.folderCount = m.items.length := by
  unfold scanPaths at h
  split at h
  · cases h
  · cases h
    refine ⟨rfl, rfl, rfl, ?_⟩
    simp only
    generalize sortItems _ = l
    induction l with
    | nil => rfl
    | cons a as ih => cases hd : a.isDir <;> simp [List.filter_cons, hd] at ih ⊢ <;> omega

/-- **C13_only_plain.** Below a selected directory only regular files and directories are listed: an item
    produced from a table entry is a file with that entry's size or a directory - never a link or device. -/
theorem C13_only_plain (table : List Entry) (name : Bytes) (s : Sel) (it : Item) (h : it ∈ itemsOf table name s) :
    it.rel = name ∨ ∃ e ∈ table, (e.kind = .file it.size it.mtime ∧ it.isDir = false) ∨ (e.kind = .dir it.mtime ∧ it.isDir = true ∧ it.size = 0) := by
  unfold itemsOf at h
  split at h
  · cases h
  · simp at h; left; rw [h]
  · rename_i mt walkable
    rcases List.mem_cons.mp h with rfl | h
    · left; rfl
    · right
      split at h
      · simp only [List.mem_filterMap] at h
        obtain ⟨e, he, hx⟩ := h
        refine ⟨e, he, ?_⟩
        split at hx
        · cases hx
        · split at hx
          · rename_i sz m' hk; cases hx; left; exact ⟨hk, rfl⟩
          · rename_i m' hk; cases hx; right; exact ⟨hk, rfl, rfl⟩
          · cases hx
      · cases h

/-- **C13_complete.** Everything beneath a selected directory is listed for it: each regular file and each directory of the path
    table that lies strictly below the selection's (physical) path appears under the selection's manifest name with its own size -
    whatever else is selected, however the names collide. (A selected link to a directory is given by the harness with the physical
    path of its target: since repo fix for C13 the scan walks it; before, `walkable = false` listed such a directory as empty.) -/
theorem C13_complete (table : List Entry) (name : Bytes) (s : Sel) (mt : Nat) (hs : s.top = .dir mt true)
    (e : Entry) (he : e ∈ table) (suffix : List Bytes) (hp : isStrictPrefix s.abs e.path = some suffix) :
    (∀ size m, e.kind = .file size m → (⟨name ++ 47 :: joinSlash suffix, size, m, false⟩ : Item) ∈ itemsOf table name s) ∧
    (∀ m, e.kind = .dir m → (⟨name ++ 47 :: joinSlash suffix, 0, m, true⟩ : Item) ∈ itemsOf table name s) := by
  constructor
  · intro size m hk
    unfold itemsOf
    rw [hs]
    simp only [if_true]
    apply List.mem_cons_of_mem
    exact List.mem_filterMap.mpr ⟨e, he, by simp [hp, hk]⟩
  · intro m hk
    unfold itemsOf
    rw [hs]
    simp only [if_true]
    apply List.mem_cons_of_mem
    exact List.mem_filterMap.mpr ⟨e, he, by simp [hp, hk]⟩

/-- the scan as it was for a selected link to a directory (`walkable = false`): the directory itself and nothing beneath it -/
theorem C13_complete_refuted_before_fix (table : List Entry) (name : Bytes) (s : Sel) (mt : Nat) (hs : s.top = .dir mt false) :
    itemsOf table name s = [⟨name, 0, mt, true⟩] := by
  unfold itemsOf; rw [hs]; simp

/-- premises satisfiable -/
example : (⟨[100, 47, 102], 3, 7, false⟩ : Item) ∈
    itemsOf [⟨[[112], [102]], .file 3 7⟩] [100] ⟨[100], [[112]], .dir 1 true⟩ := by decide

/-- **C13_resolver.** A manifest path `name/suffix` resolves to the selection that was given that name. -/
theorem C13_resolver (names : List Bytes) (sels : List Sel) (k : Nat) (n : Bytes) (s : Sel)
    (hn : names.Nodup) (hk1 : names[k]? = some n) (hk2 : sels[k]? = some s) :
    (names.zip sels).find? (fun (p : Bytes × Sel) => p.1 == n) = some (n, s) := by
  induction names generalizing sels k with
  | nil => simp at hk1
  | cons a as ih =>
    cases sels with
    | nil => simp at hk2
    | cons t ts =>
      cases k with
      | zero =>
        simp at hk1 hk2; subst hk1 hk2
        simp [List.zip_cons_cons, List.find?_cons]
      | succ k =>
        simp at hk1 hk2
        rw [List.nodup_cons] at hn
        have hne : a ≠ n := by
          intro he; subst he
          exact hn.1 (List.mem_of_getElem? hk1)
        simp only [List.zip_cons_cons, List.find?_cons]
        have : (a == n) = false := by simpa using hne
        simp only [this]
        exact ih ts k hn.2 hk1 hk2

end TV.C13
