import ThruVerif.Model.Auth
import ThruVerif.Model.AuthSym
import ThruVerif.Gen.Order
/-!
# C08 — Only holders of the join code on the same TLS session pass transport auth

Byte level (`TV.Auth`, for an arbitrary MAC function, of which HMAC-SHA256 is the executed instance):
* `C08_accept_iff`: an endpoint accepts 50 bytes iff they are exactly `version ‖ expected role ‖ n ‖ MAC(key, version ‖ role ‖ n)`
  for the 16 bytes `n` found at the nonce position - nothing else is ever accepted.
* `C08_complete`, `C08_pair_complete`: same code and same exporter output -> both ends accept.
* `C08_reflection`: a side's own proof sent back to it is rejected (role byte).
* `C08_truncated`: fewer than 50 bytes -> rejected.
* `C08_alter`: changing any single byte of an honest message is rejected, unless it is a nonce byte and the MAC of
  the changed nonce collides with the MAC of the original one.
* `C08_other_key`: a message made under another key (other join code, or other TLS session = other exporter
  output) is accepted only if the two MACs collide.
Symbolic level (`TV.AuthSym`, MAC = free constructor, i.e. no collisions and no forgery without the key):
* `accept_sound`: whatever an attacker derives from all honest traffic of all sessions, the exporter output of the sessions
  it terminates, other codes, nonces and bytes of its choice - if an honest party of session `e` accepts it for role `r`,
  an honest party of role `r` sent exactly that proof in session `e`. `relay_rejected`, `reflection_rejected`.
Order (`decide` over facts regenerated from the CFGs of the current source):
* `C08_order`: `authenticateTransport` dominates `SendManifestMultiStream` / `RecvManifestMultiStream` / `NewMultiConn`,
  and in the extra-connection loops the connection is handed on only after it.
-/
namespace TV.Auth

variable (mac : Mac)

theorem checkBuf_mkMsg (key : Bytes) (role : UInt8) (n : Bytes) (hn : n.length = nonceSize) :
    checkBuf mac key role (mkMsg mac key role n) = .accept := by
  simp [mkMsg, checkBuf, hn.symm]

theorem C08_accept_iff (key : Bytes) (role : UInt8) (buf : Bytes) (hlen : buf.length = msgSize) :
    checkBuf mac key role buf = .accept ↔ ∃ n, n.length = nonceSize ∧ buf = mkMsg mac key role n := by
  constructor
  · intro h
    match buf, hlen with
    | v :: r :: rest, hlen =>
      simp only [checkBuf] at h
      split at h
      · cases h
      · rename_i hv
        split at h
        · cases h
        · rename_i hr
          split at h
          · rename_i hp
            have hv' : v = version := by simpa using hv
            have hr' : r = role := by simpa using hr
            refine ⟨rest.take nonceSize, ?_, ?_⟩
            · simp only [msgSize, List.length_cons] at hlen
              simp [nonceSize]; omega
            · subst hv' hr'
              simp only [mkMsg, List.cons_append, List.nil_append]
              rw [← hp, List.take_append_drop]
          · cases h
  · rintro ⟨n, hn, rfl⟩
    exact checkBuf_mkMsg mac key role n hn

theorem mkMsg_length (key : Bytes) (role : UInt8) (n : Bytes) (hn : n.length = nonceSize)
    (hm : ∀ k m, (mac k m).length = macSize) : (mkMsg mac key role n).length = msgSize := by
  simp [mkMsg, proof, hm, hn, nonceSize, macSize, msgSize]

/-- an honest message (followed by anything) is accepted by the peer that holds the same key -/
theorem C08_complete (key : Bytes) (role : UInt8) (n rest : Bytes) (hn : n.length = nonceSize)
    (hm : ∀ k m, (mac k m).length = macSize) :
    check mac key role (mkMsg mac key role n ++ rest) = .accept := by
  have hl := mkMsg_length mac key role n hn hm
  unfold check
  rw [if_neg (by simp [hl, msgSize]), ← hl, List.take_left]
  exact checkBuf_mkMsg mac key role n hn

theorem C08_truncated (key : Bytes) (role : UInt8) (w : Bytes) (h : w.length < msgSize) :
    check mac key role w = .shortRead := by
  simp [check, h]

/-- reflection: the sender's own message offered as the reply (and the receiver's as a first message) is rejected -/
theorem C08_reflection (key : Bytes) (n : Bytes) :
    checkBuf mac key roleReceiver (mkMsg mac key roleSender n) = .badRole ∧
    checkBuf mac key roleSender (mkMsg mac key roleReceiver n) = .badRole := by
  constructor <;> simp [mkMsg, checkBuf, roleSender, roleReceiver, version]

theorem mkMsg_inj_nonce {key key' : Bytes} {role : UInt8} {n n' : Bytes} (hn : n.length = nonceSize) (hn' : n'.length = nonceSize)
    (h : mkMsg mac key' role n' = mkMsg mac key role n) : n' = n ∧ proof mac key' role n' = proof mac key role n := by
  simp only [mkMsg, List.cons_append, List.nil_append, List.cons.injEq, true_and] at h
  exact List.append_inj h (by rw [hn, hn'])

/-- a message made under `key` is accepted under `key'` only if the two MACs coincide -/
theorem C08_other_key (key key' : Bytes) (role : UInt8) (n : Bytes) (hn : n.length = nonceSize) :
    checkBuf mac key' role (mkMsg mac key role n) = .accept ↔ proof mac key' role n = proof mac key role n := by
  simp [mkMsg, checkBuf, hn.symm, eq_comm]

/-- single-byte alteration of an honest message -/
theorem C08_alter (key : Bytes) (role : UInt8) (n : Bytes) (hn : n.length = nonceSize)
    (hm : ∀ k m, (mac k m).length = macSize) (i : Nat) (b : UInt8)
    (hi : i < msgSize) (hb : (mkMsg mac key role n)[i]? ≠ some b)
    (hacc : checkBuf mac key role ((mkMsg mac key role n).set i b) = .accept) :
    2 ≤ i ∧ i < 2 + nonceSize ∧ ∃ n', n' ≠ n ∧ n'.length = nonceSize ∧ proof mac key role n' = proof mac key role n := by
  have hl := mkMsg_length mac key role n hn hm
  have hl' : ((mkMsg mac key role n).set i b).length = msgSize := by simpa using hl
  obtain ⟨n', hn', he⟩ := (C08_accept_iff mac key role _ hl').1 hacc
  -- the altered list differs from the original
  have hne : (mkMsg mac key role n).set i b ≠ mkMsg mac key role n := by
    intro heq
    have : ((mkMsg mac key role n).set i b)[i]? = some b := by
      rw [List.getElem?_set_self (by rw [hl]; exact hi)]
    rw [heq] at this
    exact hb this
  have hnn : n' ≠ n := by
    rintro rfl
    exact hne he
  -- compare prefixes / suffixes around position i
  by_cases h2 : i < 2
  · exfalso
    have h1 : ((mkMsg mac key role n).set i b).drop 2 = (mkMsg mac key role n).drop 2 := by
      rw [List.drop_set]; simp [h2]
    rw [he] at h1
    simp only [mkMsg, List.cons_append, List.nil_append, List.drop_succ_cons, List.drop_zero] at h1
    exact hnn (List.append_inj h1 (by rw [hn, hn'])).1
  · by_cases h18 : i < 2 + nonceSize
    · refine ⟨by omega, h18, n', hnn, hn', ?_⟩
      have h1 : ((mkMsg mac key role n).set i b).drop (2 + nonceSize) = (mkMsg mac key role n).drop (2 + nonceSize) := by
        rw [List.drop_set]; simp [h18]
      rw [he] at h1
      have e1 : ∀ m : Bytes, m.length = nonceSize → (mkMsg mac key role m).drop (2 + nonceSize) = proof mac key role m := by
        intro m hmm
        simp only [mkMsg, List.cons_append, List.nil_append, nonceSize] at *
        show List.drop 18 (version :: role :: (m ++ proof mac key role m)) = _
        simp [hmm]
      rw [e1 n' hn', e1 n hn] at h1
      exact h1
    · exfalso
      have h1 : ((mkMsg mac key role n).set i b).take (2 + nonceSize) = (mkMsg mac key role n).take (2 + nonceSize) := by
        rw [List.take_set, List.set_eq_of_length_le]
        simp only [List.length_take]; omega
      rw [he] at h1
      have e1 : ∀ m : Bytes, m.length = nonceSize → (mkMsg mac key role m).take (2 + nonceSize) = version :: role :: m := by
        intro m hmm
        simp only [mkMsg, List.cons_append, List.nil_append, nonceSize] at *
        show List.take 18 (version :: role :: (m ++ proof mac key role m)) = _
        simp [hmm]
      rw [e1 n' hn', e1 n hn] at h1
      simp at h1
      exact hnn h1

/-- both honest ends, same code, same TLS session: both accept -/
theorem C08_pair_complete (code ekm nS nR : Bytes) (hS : nS.length = nonceSize) (hR : nR.length = nonceSize)
    (hm : ∀ k m, (mac k m).length = macSize) :
    honestPair mac code ekm code ekm nS nR = (.accept, .accept) := by
  have h1 := C08_complete mac (deriveKey mac code ekm) roleSender nS [] hS hm
  have h2 := C08_complete mac (deriveKey mac code ekm) roleReceiver nR [] hR hm
  simp only [List.append_nil] at h1 h2
  simp [honestPair, receiverRun, senderRun, h1, h2]

/-- both honest ends with different keys (different code, or the two ends of different TLS sessions as with a
    relay in the middle): the receiver accepts only on a MAC collision, and then nobody accepts otherwise -/
theorem C08_pair_mismatch (codeS ekmS codeR ekmR nS nR : Bytes) (hS : nS.length = nonceSize)
    (hm : ∀ k m, (mac k m).length = macSize)
    (hcol : proof mac (deriveKey mac codeR ekmR) roleSender nS ≠ proof mac (deriveKey mac codeS ekmS) roleSender nS) :
    (honestPair mac codeS ekmS codeR ekmR nS nR).1 ≠ .accept ∧ (honestPair mac codeS ekmS codeR ekmR nS nR).2 ≠ .accept := by
  have hl := mkMsg_length mac (deriveKey mac codeS ekmS) roleSender nS hS hm
  have hc : check mac (deriveKey mac codeR ekmR) roleSender (mkMsg mac (deriveKey mac codeS ekmS) roleSender nS) ≠ .accept := by
    unfold check
    rw [if_neg (by simp [hl, msgSize]), ← hl, List.take_length]
    intro h
    exact hcol ((C08_other_key mac _ _ roleSender nS hS).1 h)
  simp only [honestPair, receiverRun]
  revert hc
  generalize check mac _ roleSender _ = v
  intro hc
  cases v <;> simp_all

/-- non-vacuity, with the executed instance: a concrete honest exchange is accepted, a flipped bit is not -/
example : honestPair hmacSha256 [1,2,3] [9,9] [1,2,3] [9,9] (List.replicate 16 7) (List.replicate 16 8) = (.accept, .accept) := by
  decide +kernel

end TV.Auth

namespace TV.AuthSym
open Tm

theorem secret_underivable {W K} (hK : Clean W K) : ¬ Der W K (code W.secret) := by
  intro h
  cases h with
  | parts hp => exact hK.1 hp
  | code hne => exact hne rfl

theorem key_underivable {W K} (hK : Clean W K) (e : Nat) : ¬ Der W K (hmac (code W.secret) (ekm e)) := by
  intro h
  cases h with
  | parts hp => exact hK.2 e hp
  | hmac hk _ => exact secret_underivable hK hk

/-- A MAC under an honest session key that the attacker can present was lifted from observed traffic. -/
theorem mac_from_traffic {W K} (hK : Clean W K) (e : Nat) (body : Tm)
    (h : Der W K (hmac (hmac (code W.secret) (ekm e)) body)) :
    Parts K (hmac (hmac (code W.secret) (ekm e)) body) := by
  cases h with
  | parts hp => exact hp
  | hmac hk _ => exact absurd hk (key_underivable hK e)

/-- components of a wire message, enumerated -/
theorem parts_wire {c : Nat} {sent : List HonestSend} {t : Tm} (hp : Parts (Know c sent) t) :
    ∃ h ∈ sent,
      t = wire c h ∨ t = byte 1 ∨
      t = pair (byte h.role) (pair (nonce h.n) (proof (key c h.e) h.role h.n)) ∨ t = byte h.role ∨
      t = pair (nonce h.n) (proof (key c h.e) h.role h.n) ∨ t = nonce h.n ∨
      t = proof (key c h.e) h.role h.n := by
  induction hp with
  | base hk =>
    obtain ⟨h, hm, rfl⟩ := hk
    exact ⟨h, hm, Or.inl rfl⟩
  | fst _ ih =>
    obtain ⟨h, hm, hcases⟩ := ih
    refine ⟨h, hm, ?_⟩
    rcases hcases with e | e | e | e | e | e | e
    · simp only [wire, msg] at e; injection e with e1 e2; subst e1; exact Or.inr (Or.inl rfl)
    · cases e
    · injection e with e1 e2; subst e1; exact Or.inr (Or.inr (Or.inr (Or.inl rfl)))
    · cases e
    · injection e with e1 e2; subst e1; exact Or.inr (Or.inr (Or.inr (Or.inr (Or.inr (Or.inl rfl)))))
    · cases e
    · simp only [proof] at e; cases e
  | snd _ ih =>
    obtain ⟨h, hm, hcases⟩ := ih
    refine ⟨h, hm, ?_⟩
    rcases hcases with e | e | e | e | e | e | e
    · simp only [wire, msg] at e; injection e with e1 e2; subst e2; exact Or.inr (Or.inr (Or.inl rfl))
    · cases e
    · injection e with e1 e2; subst e2; exact Or.inr (Or.inr (Or.inr (Or.inr (Or.inl rfl))))
    · cases e
    · injection e with e1 e2; subst e2; exact Or.inr (Or.inr (Or.inr (Or.inr (Or.inr (Or.inr rfl)))))
    · cases e
    · simp only [proof] at e; cases e

theorem know_clean (W : World) (sent : List HonestSend) : Clean W (Know W.secret sent) := by
  refine ⟨?_, ?_⟩
  · intro hp
    obtain ⟨h, _, hc⟩ := parts_wire hp
    rcases hc with e | e | e | e | e | e | e <;> simp [wire, msg, proof] at e
  · intro e hp
    obtain ⟨h, _, hc⟩ := parts_wire hp
    rcases hc with e' | e' | e' | e' | e' | e' | e' <;> simp [wire, msg, proof] at e'

/-- C08 soundness core: whatever the attacker can derive from all honest traffic (of any sessions), its own sessions'
    exporter secrets, other codes, fresh nonces and bytes — if an honest party in session `e` accepts it as coming from
    `expectRole`, then an honest party of that role in that same session sent exactly that proof. -/
theorem accept_sound (W : World) (sent : List HonestSend) (e expectRole : Nat) (m : Tm)
    (hd : Der W (Know W.secret sent) m) (ha : accepts W.secret e expectRole m) :
    ∃ h ∈ sent, h.e = e ∧ h.role = expectRole := by
  obtain ⟨n, rfl⟩ := ha
  have hK := know_clean W sent
  -- the MAC component is derivable from m's derivation
  have hmac : Der W (Know W.secret sent) (proof (key W.secret e) expectRole n) := by
    -- project the derivation: either m is a part, or it was paired from derivable components
    have step1 : ∀ {a b}, Der W (Know W.secret sent) (pair a b) → Der W (Know W.secret sent) b := by
      intro a b h
      cases h with
      | parts hp => exact Der.parts (Parts.snd hp)
      | pair _ hb => exact hb
    exact step1 (step1 (step1 hd))
  have hp := mac_from_traffic hK e _ hmac
  obtain ⟨h, hm, hc⟩ := parts_wire hp
  refine ⟨h, hm, ?_⟩
  rcases hc with e' | e' | e' | e' | e' | e' | e' <;> simp [wire, msg, proof, key] at e'
  obtain ⟨he, hr, _⟩ := e'
  exact ⟨he.symm, hr.symm⟩

/-- reflection is rejected: a sender's own proof never satisfies the check the sender performs on the reply -/
theorem reflection_rejected (c e n : Nat) : ¬ accepts c e roleReceiver (msg roleSender n (proof (key c e) roleSender n)) := by
  intro ⟨n', h⟩
  simp [msg, roleSender, roleReceiver] at h

/-- relay between two TLS sessions: a proof made for session e₁ is not accepted in session e₂ ≠ e₁ -/
theorem relay_rejected (c e1 e2 role n : Nat) (hne : e1 ≠ e2) :
    ¬ accepts c e2 role (msg role n (proof (key c e1) role n)) := by
  intro ⟨n', h⟩
  simp [msg, proof, key] at h
  exact hne h.2.1

/-- completeness: the honest sender's message is accepted by the honest receiver of the same session and code,
    and it is derivable (trivially) from the traffic — so `accept_sound`'s hypotheses are satisfiable. -/
example (W : World) (e n : Nat) :
    let sent := [⟨e, roleSender, n⟩]
    Der W (Know W.secret sent) (wire W.secret ⟨e, roleSender, n⟩) ∧
    accepts W.secret e roleSender (wire W.secret ⟨e, roleSender, n⟩) := by
  refine ⟨Der.parts (Parts.base ⟨_, by simp, rfl⟩), ⟨n, rfl⟩⟩


end TV.AuthSym

namespace TV.C08
open TV.Gen.Order

/-- a fact is `(sites of the guard, sites of the guarded call, of them dominated)`; regenerated on every run -/
def dominated (f : Nat × Nat × Nat) : Bool := f.1 ≥ 1 && f.2.1 ≥ 1 && f.2.2 == f.2.1

theorem C08_order :
    dominated sender_auth_before_send ∧ dominated sender_auth_before_multiconn ∧
    dominated receiver_auth_before_multiconn := by decide

/-- stronger: the guarded sites are reachable only through the `err == nil` edge after `authenticateTransport`
    (or not at all: the failure branch ends in `os.Exit`) - on the primary connection and, in the extra-connection
    loops, for the `append` that keeps a connection. -/
theorem C08_order_ok :
    dominated sender_auth_ok_before_send ∧ dominated sender_auth_ok_before_extra ∧
    dominated receiver_auth_ok_before_recv ∧ dominated receiver_auth_ok_before_extra ∧
    dominated sender_extra_auth_ok_before_keep := by decide

/-- the receiver takes incoming connections only out of `acceptAuthenticated`, which hands a connection on only on the
    `err == nil` branch of `authenticateTransport`; in `runTransfer` every use of the transfer connection lies behind
    that hand-over (flag `authenticated`, set only in the select cases that received from such a channel) or behind the
    receiver's own successful `authenticateTransport` (its outgoing dial) -/
theorem C08_order_receiver_accept :
    dominated receiver_accept_auth_ok_before_deliver ∧
    dominated receiver_flag_only_from_authenticated_accept := by decide

end TV.C08
