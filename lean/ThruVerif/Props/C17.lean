import ThruVerif.Model.SendFile
import ThruVerif.Gen.Shapes
import ThruVerif.Model.Sched
/-!
# C17 — Each needed chunk and each file is dispatched exactly once, then one FileEnd

Statements are over *arbitrary* operation lists: every interleaving of any number of workers' take /
finish / try-end steps with the arrival of the resume plan, the start of verification and its verdict.
-/
namespace TV.C17
open TV.SendFile

theorem scan_some {p total fuel next i n} (h : scan p total fuel next = (some i, n)) :
    next ≤ i ∧ n = i + 1 ∧ i < total ∧ skip p i = false := by
  induction fuel generalizing next with
  | zero => simp [scan] at h
  | succ f ih =>
    simp only [scan] at h
    split at h
    · rename_i hlt
      split at h
      · obtain ⟨h1, h2, h3, h4⟩ := ih h
        exact ⟨by omega, h2, h3, h4⟩
      · rename_i hs
        simp at h
        obtain ⟨rfl, rfl⟩ := h
        exact ⟨Nat.le_refl _, rfl, hlt, by simpa using hs⟩
    · simp at h

theorem scan_none {p total fuel next n} (h : scan p total fuel next = (none, n)) (hf : total - next ≤ fuel) :
    next ≤ n ∧ total ≤ n := by
  induction fuel generalizing next with
  | zero => simp [scan] at h; omega
  | succ f ih =>
    simp only [scan] at h
    split at h
    · split at h
      · have := ih h (by omega); omega
      · simp at h
    · simp at h; omega

/-- indices handed out by ordinary (non-resend) takes along a run -/
def normalTakes (s : St) : List Op → List Nat
  | [] => []
  | o :: os =>
    match o with
    | .take =>
      if s.resendPending then normalTakes (step s o).1 os
      else match (take s).2 with
        | some i => i :: normalTakes (step s o).1 os
        | none => normalTakes (step s o).1 os
    | _ => normalTakes (step s o).1 os

/-- number of re-sends handed out along a run -/
def resendTakes (s : St) : List Op → Nat
  | [] => 0
  | o :: os =>
    match o with
    | .take => (if s.resendPending then 1 else 0) + resendTakes (step s o).1 os
    | _ => resendTakes (step s o).1 os

def mismatches : List Op → Nat
  | [] => 0
  | .verdict true _ :: os => 1 + mismatches os
  | _ :: os => mismatches os

theorem next_mono (s : St) (o : Op) : s.next ≤ (step s o).1.next := by
  cases o with
  | take =>
    simp only [step, take]
    split
    · simp
    · split
      · simp
      · split
        · rename_i h; have := scan_some h; simp; omega
        · rename_i h; have := scan_none h (Nat.le_refl _); simp; omega
  | finish => simp only [step, finish]; (repeat' split) <;> simp
  | tryEnd => simp only [step, tryEnd]; (repeat' split) <;> simp
  | applyPlan p => simp [step]
  | verifyBegin => simp only [step]; split <;> simp
  | verdict m c => simp only [step]; (repeat' split) <;> simp

theorem take_some_normal {s : St} {i : Nat} (hr : s.resendPending = false) (h : (take s).2 = some i) :
    s.next ≤ i ∧ (take s).1.next = i + 1 ∧ i < s.total ∧ skip s.plan i = false := by
  unfold take at h ⊢
  rw [hr] at h ⊢
  simp only [Bool.false_eq_true, if_false] at h ⊢
  by_cases hd : s.scheduleDone = true
  · simp [hd] at h
  · simp only [hd, if_false] at h ⊢
    generalize hsc : scan s.plan s.total (s.total - s.next) s.next = r at h ⊢
    obtain ⟨o, n⟩ := r
    cases o with
    | none => simp at h
    | some j =>
      simp at h; subst h
      obtain ⟨h1, h2, h3, h4⟩ := scan_some hsc
      exact ⟨h1, by simp [h2], h3, h4⟩

/-- **C17_once.** Ordinary takes hand out strictly increasing indices (hence pairwise distinct, each
    chunk to exactly one worker), all below `total`, for every operation sequence. -/
theorem C17_once (s : St) (ops : List Op) :
    (∀ i ∈ normalTakes s ops, s.next ≤ i) ∧ (normalTakes s ops).Pairwise (· < ·) := by
  induction ops generalizing s with
  | nil => simp [normalTakes]
  | cons o os ih =>
    have hm := next_mono s o
    obtain ⟨ihge, ihp⟩ := ih (step s o).1
    have keep : (∀ i ∈ normalTakes (step s o).1 os, s.next ≤ i) ∧ (normalTakes (step s o).1 os).Pairwise (· < ·) :=
      ⟨fun i hi => Nat.le_trans hm (ihge i hi), ihp⟩
    cases o with
    | take =>
      simp only [normalTakes]
      split
      · exact keep
      · rename_i hnr
        have hr : s.resendPending = false := by simpa using hnr
        split
        · rename_i i hi
          obtain ⟨h1, h2, _, _⟩ := take_some_normal hr hi
          have hn : (step s .take).1.next = i + 1 := by simpa [step] using h2
          refine ⟨?_, ?_⟩
          · intro j hj
            simp at hj
            rcases hj with rfl | hj
            · exact h1
            · have := ihge j hj; omega
          · simp only [List.pairwise_cons]
            exact ⟨fun j hj => by have := ihge j hj; omega, ihp⟩
        · exact keep
    | finish => simpa only [normalTakes] using keep
    | tryEnd => simpa only [normalTakes] using keep
    | applyPlan p => simpa only [normalTakes] using keep
    | verifyBegin => simpa only [normalTakes] using keep
    | verdict m c => simpa only [normalTakes] using keep

/-- **C17_skip.** A chunk the known plan marks as present below the verification point is never
    handed out by an ordinary take; and what is handed out is a real chunk index. -/
theorem C17_skip (s : St) (i : Nat) (hr : s.resendPending = false) (h : (step s .take).2 = .chunk i) :
    skip s.plan i = false ∧ i < s.total := by
  simp only [step] at h
  split at h
  · rename_i j hj
    cases h
    obtain ⟨_, _, h3, h4⟩ := take_some_normal hr hj
    exact ⟨h4, h3⟩
  · cases h

/-- **C17_resend_once.** Re-sends handed out ≤ (one already pending) + number of mismatch verdicts:
    the chunk that failed verification is sent again exactly once per mismatch, never spontaneously. -/
theorem C17_resend_once (s : St) (ops : List Op) :
    resendTakes s ops ≤ (if s.resendPending then 1 else 0) + mismatches ops := by
  induction ops generalizing s with
  | nil => simp [resendTakes]
  | cons o os ih =>
    have h := ih (step s o).1
    cases o with
    | take =>
      simp only [resendTakes, mismatches]
      by_cases hr : s.resendPending = true
      · have : (step s .take).1.resendPending = false := by simp [step, take, hr]
        simp [hr, this] at h ⊢; omega
      · have hr' : s.resendPending = false := by simpa using hr
        have : (step s .take).1.resendPending = false := by
          simp only [step, take, hr']
          simp only [Bool.false_eq_true, if_false]
          (repeat' split) <;> simp [hr']
        simp [hr', this] at h ⊢; omega
    | finish =>
      simp only [resendTakes, mismatches]
      have : (step s .finish).1.resendPending = s.resendPending := by
        simp only [step, finish]; split <;> simp
      rw [this] at h; exact h
    | tryEnd =>
      simp only [resendTakes, mismatches]
      have : (step s .tryEnd).1.resendPending = s.resendPending := by
        simp only [step, tryEnd]; split <;> simp
      rw [this] at h; exact h
    | applyPlan p =>
      have hm : mismatches (.applyPlan p :: os) = mismatches os := rfl
      have hr : (step s (.applyPlan p)).1.resendPending = s.resendPending := rfl
      simp only [resendTakes, hm]; rw [hr] at h; exact h
    | verifyBegin =>
      have hm : mismatches (.verifyBegin :: os) = mismatches os := rfl
      have hr : (step s .verifyBegin).1.resendPending = s.resendPending := by simp only [step]; split <;> rfl
      simp only [resendTakes, hm]; rw [hr] at h; exact h
    | verdict m c =>
      cases m with
      | true =>
        have hm : mismatches (.verdict true c :: os) = 1 + mismatches os := rfl
        simp only [resendTakes, hm]
        have hx : (if (step s (.verdict true c)).1.resendPending = true then 1 else 0 : Nat) ≤ 1 := by split <;> omega
        omega
      | false =>
        have hm : mismatches (.verdict false c :: os) = mismatches os := rfl
        have hr : (step s (.verdict false c)).1.resendPending = s.resendPending := by
          simp only [step]; split <;> simp
        simp only [resendTakes, hm]; rw [hr] at h; exact h

/-- `scheduleDone` means the cursor has passed every chunk -/
def Inv (s : St) : Prop := s.scheduleDone = true → s.total ≤ s.next

theorem inv_init (total : Nat) : Inv (init total) := by simp [Inv, init]

theorem inv_step (s : St) (o : Op) (h : Inv s) : Inv (step s o).1 ∧ (step s o).1.total = s.total := by
  cases o with
  | take =>
    simp only [step, take]
    split
    · exact ⟨h, rfl⟩
    · split
      · exact ⟨h, rfl⟩
      · split
        · rename_i hs
          obtain ⟨_, h2, h3, _⟩ := scan_some hs
          refine ⟨?_, rfl⟩
          intro hd; simp at hd ⊢; omega
        · rename_i hs
          obtain ⟨_, h2⟩ := scan_none hs (Nat.le_refl _)
          exact ⟨fun _ => by simpa using h2, rfl⟩
  | finish => simp only [step, finish]; split <;> exact ⟨h, rfl⟩
  | tryEnd => simp only [step, tryEnd]; split <;> exact ⟨h, rfl⟩
  | applyPlan p => exact ⟨h, rfl⟩
  | verifyBegin => simp only [step]; split <;> exact ⟨h, rfl⟩
  | verdict m c => simp only [step]; (repeat' split) <;> exact ⟨h, rfl⟩

theorem inv_final (s : St) (ops : List Op) (h : Inv s) : Inv (final s ops) := by
  induction ops generalizing s with
  | nil => exact h
  | cons o os ih => exact ih _ (inv_step s o h).1

/-- **C17_end_conditions.** Whenever a step emits the end-of-file record: nothing is in flight, every
    chunk index has been passed by the cursor, verification has been decided and no re-send is
    outstanding. -/
theorem C17_end_conditions (s : St) (o : Op) (hi : Inv s) (h : (step s o).2 = .fileEnd) :
    let s' := (step s o).1
    s'.inFlight = 0 ∧ s'.total ≤ s'.next ∧ s'.verifyPending = false ∧ s'.resendPending = false ∧
    s'.endSent = true ∧ s.endSent = false := by
  have hinv := (inv_step s o hi).1
  cases o with
  | take => simp only [step] at h; split at h <;> cases h
  | finish =>
    simp only [step, finish] at h hinv ⊢
    split at h
    · rename_i hc
      simp only [hc, if_true] at hinv ⊢
      simp only [canEnd, Bool.and_eq_true, Bool.not_eq_true', beq_iff_eq] at hc
      obtain ⟨⟨⟨⟨h1, h2⟩, h3⟩, h4⟩, h5⟩ := hc
      exact ⟨h4, hinv h3, h1, h2, by first | rfl | trivial, h5⟩
    · cases h
  | tryEnd =>
    simp only [step, tryEnd] at h hinv ⊢
    split at h
    · rename_i hc
      simp only [hc, if_true] at hinv ⊢
      simp only [canEnd, Bool.and_eq_true, Bool.not_eq_true', beq_iff_eq] at hc
      obtain ⟨⟨⟨⟨h1, h2⟩, h3⟩, h4⟩, h5⟩ := hc
      exact ⟨h4, hinv h3, h1, h2, by first | rfl | trivial, h5⟩
    · cases h
  | applyPlan p => simp [step] at h
  | verifyBegin => simp only [step] at h; split at h <;> simp at h
  | verdict m c => simp only [step] at h; split at h <;> simp at h

theorem endSent_mono (s : St) (o : Op) (h : s.endSent = true) : (step s o).1.endSent = true := by
  cases o with
  | take => simp only [step, take]; (repeat' split) <;> simp [h]
  | finish => simp only [step, finish]; split <;> simp [h]
  | tryEnd => simp only [step, tryEnd]; split <;> simp [h]
  | applyPlan p => simp [step, h]
  | verifyBegin => simp only [step]; split <;> simp [h]
  | verdict m c => simp only [step]; (repeat' split) <;> simp [h]

def ends : List Out → Nat
  | [] => 0
  | .fileEnd :: os => 1 + ends os
  | _ :: os => ends os

theorem no_end_after_end (s : St) (ops : List Op) (h : s.endSent = true) : ends (run s ops) = 0 := by
  induction ops generalizing s with
  | nil => rfl
  | cons o os ih =>
    have hne : (step s o).2 ≠ .fileEnd := by
      cases o with
      | take => simp only [step]; split <;> simp
      | finish => simp [step, finish, canEnd, h]
      | tryEnd => simp [step, tryEnd, canEnd, h]
      | applyPlan p => simp [step]
      | verifyBegin => simp only [step]; split <;> simp
      | verdict m c => simp only [step]; split <;> simp
    simp only [run]
    have := ih _ (endSent_mono s o h)
    generalize (step s o).2 = out at hne
    cases out <;> simp_all [ends]

/-- **C17_end_once.** The end-of-file record is emitted at most once in any run. -/
theorem C17_end_once (s : St) (ops : List Op) : ends (run s ops) ≤ 1 := by
  induction ops generalizing s with
  | nil => simp [run, ends]
  | cons o os ih =>
    simp only [run]
    by_cases he : (step s o).2 = .fileEnd
    · have hs : (step s o).1.endSent = true := by
        cases o with
        | take => simp only [step] at he; split at he <;> cases he
        | finish => simp only [step, finish] at he ⊢; split at he <;> simp_all
        | tryEnd => simp only [step, tryEnd] at he ⊢; split at he <;> simp_all
        | applyPlan p => simp [step] at he
        | verifyBegin => simp only [step] at he; split at he <;> simp at he
        | verdict m c => simp only [step] at he; split at he <;> simp at he
      rw [he]; simp [ends, no_end_after_end _ os hs]
    · have := ih (step s o).1
      generalize (step s o).2 = out at he
      cases out <;> simp_all [ends]

/-- **C17_last.** Once the schedule is done and no re-send is pending, no take succeeds (and after the end record
    no verification can start any more: `C17_nothing_after_end`). -/
theorem C17_last (s : St) (h1 : s.scheduleDone = true) (h2 : s.resendPending = false) :
    (step s .take).2 = .none ∧ (step s .take).1 = s := by
  simp [step, take, h1, h2]

/-! ### nothing follows the end record -/

/-- the file is closed for dispatch: the end record is out, the cursor is past every chunk, nothing is being verified or owed -/
def Closed (s : St) : Prop :=
  s.endSent = true ∧ s.scheduleDone = true ∧ s.verifyPending = false ∧ s.resendPending = false

theorem closed_step (s : St) (o : Op) (h : Closed s) : Closed (step s o).1 ∧ ∀ i, (step s o).2 ≠ .chunk i := by
  obtain ⟨h1, h2, h3, h4⟩ := h
  cases o with
  | take => simp [step, take, Closed, h1, h2, h3, h4]
  | finish => simp [step, finish, canEnd, Closed, h1, h2, h3, h4]
  | tryEnd => simp [step, tryEnd, canEnd, Closed, h1, h2, h3, h4]
  | applyPlan p => simp [step, Closed, h1, h2, h3, h4]
  | verifyBegin => simp [step, Closed, h1, h2, h3, h4]
  | verdict m c => simp [step, Closed, h1, h2, h3, h4]

theorem end_closes (s : St) (o : Op) (h : (step s o).2 = .fileEnd) : Closed (step s o).1 := by
  cases o with
  | take => simp only [step] at h; split at h <;> cases h
  | finish =>
    simp only [step, finish] at h ⊢
    split at h
    · rename_i hc
      simp only [hc, if_true]
      simp only [canEnd, Bool.and_eq_true, Bool.not_eq_true', beq_iff_eq] at hc
      obtain ⟨⟨⟨⟨a, b⟩, c⟩, _⟩, _⟩ := hc
      exact ⟨rfl, c, a, b⟩
    · cases h
  | tryEnd =>
    simp only [step, tryEnd] at h ⊢
    split at h
    · rename_i hc
      simp only [hc, if_true]
      simp only [canEnd, Bool.and_eq_true, Bool.not_eq_true', beq_iff_eq] at hc
      obtain ⟨⟨⟨⟨a, b⟩, c⟩, _⟩, _⟩ := hc
      exact ⟨rfl, c, a, b⟩
    · cases h
  | applyPlan p => simp [step] at h
  | verifyBegin => simp only [step] at h; split at h <;> simp at h
  | verdict m c => simp only [step] at h; split at h <;> simp at h

theorem closed_final (s : St) (ops : List Op) (h : Closed s) : Closed (final s ops) := by
  induction ops generalizing s with
  | nil => exact h
  | cons o os ih => exact ih _ (closed_step s o h).1

theorem closed_run (s : St) (ops : List Op) (h : Closed s) : ∀ i, Out.chunk i ∉ run s ops := by
  induction ops generalizing s with
  | nil => intro i hi; simp [run] at hi
  | cons o os ih =>
    intro i hi
    simp only [run, List.mem_cons] at hi
    rcases hi with hi | hi
    · exact (closed_step s o h).2 i hi.symm
    · exact ih _ (closed_step s o h).1 i hi

theorem closed_after_end (s : St) (ops : List Op) (h : Out.fileEnd ∈ run s ops) : Closed (final s ops) := by
  induction ops generalizing s with
  | nil => simp [run] at h
  | cons o os ih =>
    simp only [run, List.mem_cons] at h
    simp only [final]
    rcases h with h | h
    · exact closed_final _ os (end_closes s o h.symm)
    · exact ih _ h

/-- **C17_nothing_after_end.** Once the end-of-file record has been emitted, no chunk is handed out any more, whatever happens
    afterwards - in particular a resume report that arrives only then starts no verification and causes no re-send (everything
    was sent, without a plan). Together with `C17_end_conditions`: the end record is the last thing dispatched for the file. -/
theorem C17_nothing_after_end (s : St) (before after : List Op) (h : Out.fileEnd ∈ run s before) :
    ∀ i, Out.chunk i ∉ run (final s before) after :=
  closed_run _ after (closed_after_end s before h)

/-- why the order inside `applyResumeInfo` matters (tied by `send_apply_order` below): the plan put in force before verification is
    pending lets the workers run to the end record, after which `verifyBegin` declines - the chunk offered for verification is never
    decided. With `verifyBegin` first the end record waits for the verdict. -/
theorem C17_plan_before_verify_skips_verification :
    run (init 2) [.applyPlan { bitmap := [true, true], forceFrom := 2 }, .take, .tryEnd, .verifyBegin] =
      [.nothing, .none, .fileEnd, .declined] ∧
    run (init 2) [.verifyBegin, .applyPlan { bitmap := [true, true], forceFrom := 2 }, .take, .tryEnd, .verdict true 1, .take, .finish] =
      [.nothing, .nothing, .none, .nothing, .nothing, .chunk 1, .fileEnd] := by decide

/-- premises satisfiable: one chunk, sent and ended; the late report (`verifyBegin`) is declined, a verdict has nobody to wake -/
example : run (init 1) [.take, .finish, .verifyBegin, .verdict true 0, .take] =
    [.chunk 0, .fileEnd, .declined, .declined, .none] := by decide

/-- the machine as it was: a report arriving after the end record started a verification, and its mismatch verdict handed the
    chunk out again *after* the end record -/
theorem C17_nothing_after_end_refuted_before_fix :
    runOld (init 1) [.take, .finish, .verifyBegin, .verdict true 0, .take] =
      [.chunk 0, .fileEnd, .nothing, .nothing, .chunk 0] := by decide

/-- **C17_end_emitted.** A complete run does emit the record: with everything finished, verification
    decided and no re-send pending, the next finish/try-end emits it. -/
theorem C17_end_emitted (s : St) (h : canEnd s = true) : (step s .tryEnd).2 = .fileEnd := by
  simp [step, tryEnd, h]

/-! ### the P5 history (FileEnd overtaking the re-send) is no longer a run of the machine -/
def init4 : St :=
  { init 4 with verifyPending := true, plan := some { bitmap := [true, true, false, false], forceFrom := 2 } }

theorem resend_before_end :
    run init4 [.take, .take, .finish, .verdict true 1, .finish, .take, .finish] =
      [.chunk 2, .chunk 3, .nothing, .nothing, .nothing, .chunk 1, .fileEnd] := by decide

/-! ### files: the scheduler never hands out a file twice and always hands one out when it can -/
open TV.Sched in
/-- **C17_files_once.** A key returned by `next` is marked started and is never returned again. -/
theorem C17_files_once (cfg : Cfg) (fs : List F) (pick : Nat) (k : Nat) (fs' : List F)
    (h : TV.Sched.next cfg fs pick = some (k, fs')) :
    (∃ f ∈ fs, f.key = k ∧ f.started = false) ∧ (∀ f ∈ fs', f.key = k → f.started = true) ∧
    (∀ pick' k' fs'', TV.Sched.next cfg fs' pick' = some (k', fs'') → (∃ f ∈ fs', f.key = k' ∧ f.started = false)) :=
  TV.Sched.next_spec cfg fs pick k fs' h

open TV.Sched in
/-- **C17_files_progress.** If nothing is started and something is pending, `next` returns a key. -/
theorem C17_files_progress (cfg : Cfg) (fs : List F) (pick : Nat) (hc : 1 ≤ cfg.smallSlots)
    (hnone : ∀ f ∈ fs, f.started = false) (hne : fs ≠ []) :
    (TV.Sched.next cfg fs pick).isSome = true :=
  TV.Sched.next_progress cfg fs pick hc hnone hne

-- non-vacuity
example : Inv (init 5) := inv_init 5
example : canEnd (final (init 1) [.take, .finish]) = false ∧ ends (run (init 1) [.take, .finish]) = 1 := by decide

/-! ## the decision structure of the source, as regenerated on this run (xlate, `Gen/Shapes.lean`) -/

open TV.Gen.Shapes in
/-- every `if` condition of `nextChunkToSend`, `markChunkDone` and `trySendEnd`, in source order (enclosing conditions first):
the text `Model/SendFile` was transcribed from -/
theorem C17_source_shapes :
    sendfile_next_chunk = ["s.scheduleDone", "s.scheduleDone ; s.resendPending", "s.resendPending",
      "s.plan != nil && s.plan.bitmap != nil && s.plan.bitmap.Get(int(idx)) && idx < s.plan.forceSendFrom",
      "s.nextChunk >= s.totalChunks"] ∧
    sendfile_mark_done = ["s.inFlight > 0", "s.verifyPending || s.resendPending", "s.scheduleDone && s.inFlight == 0 && !s.endSent"] ∧
    sendfile_try_end = ["s.verifyPending || s.resendPending", "s.scheduleDone && s.inFlight == 0 && !s.endSent"] ∧
    -- `verifyBegin`: one locked region that declines after the end record; it is the only place that sets `verifyPending`, and the
    -- verification goroutine (`verdict`) is started only when it accepted
    sendfile_begin_verify = ["s.mu.Lock()", "defer s.mu.Unlock()", "if s.endSent { return false }", "s.verifyPending = true", "return true"] ∧
    send_begin_verify_call = ["totalChunks > 0 && len(info.Bitmap) > 0 ; verifyNeeded && state.beginVerify()"] ∧
    send_verify_pending_sets = ["false", "false"] ∧
    -- inside `applyResumeInfo`: verification is made pending (`verifyBegin`) BEFORE the plan is put in force (`applyPlan`) - with the
    -- plan first, the workers could skip to the end record while nothing is pending yet, and `beginVerify` would then decline
    send_apply_order = ["state.beginVerify()", "go func(vChunk", "opts.ResumeStatsFn(", "state.plan = plan"] := by decide

end TV.C17
