import ThruVerif.Model.Disk
import ThruVerif.Gen.Order
import ThruVerif.Gen.Shapes
import ThruVerif.Proofs.Flushers
/-!
# C05 — Resume metadata never claims a chunk that is not safely in the file
-/
namespace TV.Disk

/-- A chunk is safely in the file: good and nobody is overwriting it with anything but the source bytes.
    (Writers only ever write source bytes, so `good` is stable; see `beginWrite`.) -/
def Sub (b : BM) (s : State) : Prop := ∀ i, b i = true → s.data i = .good

structure Inv (s : State) : Prop where
  mem  : Sub s.mem s
  disk : ∀ b, s.disk = some b → Sub b s
  tmp  : ∀ b, s.tmp = some b → Sub b s
  snap : (∀ b, s.fl = .snapped b → Sub b s) ∧ (∀ b, s.fl = .wroteTmp b → Sub b s)
  pend : ∀ i, 0 < s.pend i → s.data i = .good
  wr   : ∀ i, s.data i = .torn → 0 < s.wr i ∨ True   -- (torn chunks may survive a crash)

theorem inv_init : Inv init := by
  refine ⟨?_, ?_, ?_, ⟨?_, ?_⟩, ?_, ?_⟩ <;> intros <;> simp_all [init, Sub]

/-- `good` is never lost by a step. -/
theorem good_stable (s s' : State) (a : Step) (h : step s a = some s') (i : Nat)
    (hg : s.data i = .good) : s'.data i = .good := by
  cases a <;> simp only [step] at h <;> (repeat' split at h) <;> (try simp at h) <;>
    (try subst h) <;> (try simp only [upd]) <;> (repeat' split) <;> simp_all

theorem sub_stable {b : BM} {s s' : State} {a : Step} (h : step s a = some s') (hb : Sub b s) : Sub b s' :=
  fun i hi => good_stable s s' a h i (hb i hi)

theorem inv_step (s s' : State) (a : Step) (hinv : Inv s) (h : step s a = some s') : Inv s' := by
  have stab : ∀ b, Sub b s → Sub b s' := fun b hb => sub_stable h hb
  have gstab := good_stable s s' a h
  obtain ⟨hmem, hdisk, htmp, ⟨hsnap, hwt⟩, hpend, _⟩ := hinv
  cases a <;> simp only [step] at h <;> (repeat' split at h) <;> (try simp at h) <;>
    (try subst h) <;>
    (refine ⟨?_, ?_, ?_, ⟨?_, ?_⟩, ?_, ?_⟩) <;> (try simp_all [Sub, upd]) <;>
    (try (first
      | (apply hpend; omega)
      | (intro i hi hne; simp [hne] at hi; exact hpend i hi)
      | (intro i hi; split at hi
         · subst_vars; apply hpend; omega
         · intros; exact hpend i hi)
      | (intro i hi; split at hi
         · subst_vars; apply hpend; omega
         · exact hpend i hi)))

theorem inv_reachable {s : State} (h : Reachable s) : Inv s := by
  induction h with
  | init => exact inv_init
  | step _ hs ih => exact inv_step _ _ _ ih hs

/-- C05 core: whatever is in the sidecar file on disk marks only chunks that are safely in the data file. -/
theorem sidecar_on_disk_sound {s : State} (h : Reachable s) (b : BM) (hb : s.disk = some b) (i : Nat)
    (hi : b i = true) : s.data i = .good :=
  (inv_reachable h).disk b hb i hi



/-- **C05_inv** (headline). In every reachable state - any number of writers interleaved with the flusher,
    a kill at any point, any number of restarts - the sidecar found on disk marks only good chunks. -/
theorem C05_inv {s : State} (h : Reachable s) (b : BM) (hb : s.disk = some b) (i : Nat) (hi : b i = true) :
    s.data i = .good := sidecar_on_disk_sound h b hb i hi

/-- **C05_atomic.** The sidecar file changes only by the rename step, and then to a bitmap that was
    marshalled under the lock and written completely to the temp file; a torn temp file is never installed. -/
theorem C05_atomic (s s' : State) (a : Step) (h : step s a = some s') :
    s'.disk = s.disk ∨ (a = .flushRename ∧ ∃ b, s.fl = .wroteTmp b ∧ s'.disk = some b) := by
  cases a <;> simp only [step] at h <;> (repeat' split at h) <;> (try simp at h) <;> (try subst h) <;> simp_all

/-- a kill keeps the sidecar file as it was -/
theorem C05_crash_keeps_disk (s s' : State) (h : step s .crash = some s') : s'.disk = s.disk ∧ s'.data = s.data := by
  simp only [step] at h; cases h; exact ⟨rfl, rfl⟩

/-- after a restart the in-memory bitmap is sound again (it is the on-disk one) -/
theorem C05_restart_sound {s s' : State} (hr : Reachable s) (h : step s .restartLoad = some s') (i : Nat)
    (hi : s'.mem i = true) : s'.data i = .good :=
  (inv_reachable (Reachable.step hr h)).mem i hi

/-- **C05_order** (regenerated from the source, SSA dominator trees): the positional write dominates the
    bit mark in the live reader (also through every helper from which Sidecar.MarkComplete* is reachable) and in the legacy receiver, the CRC check dominates the write, and the temp
    file write dominates the rename. -/
theorem C05_order :
    (TV.Gen.Order.recv_write_before_mark.1 ≥ 1 ∧ TV.Gen.Order.recv_write_before_mark.2.1 ≥ 1 ∧
      TV.Gen.Order.recv_write_before_mark.2.2 = TV.Gen.Order.recv_write_before_mark.2.1) ∧
    (TV.Gen.Order.recv_write_before_any_mark.2.1 ≥ 1 ∧
      TV.Gen.Order.recv_write_before_any_mark.2.2 = TV.Gen.Order.recv_write_before_any_mark.2.1) ∧
    (TV.Gen.Order.recv_crc_before_write.2.1 ≥ 1 ∧ TV.Gen.Order.recv_crc_before_write.2.2 = TV.Gen.Order.recv_crc_before_write.2.1) ∧
    (TV.Gen.Order.legacy_write_before_mark.2.1 ≥ 1 ∧ TV.Gen.Order.legacy_write_before_mark.2.2 = TV.Gen.Order.legacy_write_before_mark.2.1) ∧
    (TV.Gen.Order.flush_tmp_before_rename.2.1 ≥ 1 ∧ TV.Gen.Order.flush_tmp_before_rename.2.2 = TV.Gen.Order.flush_tmp_before_rename.2.1) := by
  decide

/-- what breaks if a writer marked before its write returned: the witness run (mark-then-crash) -/
example : ∃ s, Reachable s ∧ s.disk = none := ⟨init, .init, rfl⟩

end TV.Disk

namespace TV.Flushers

/-! ### several flushers of one sidecar (ticker, `finalizeFile`, the signal handler) - `Model/Flushers` -/

/-- **C05_replace_atomic.** With the sidecar mutex held around the I/O, for any number of flushers, any interleaving of their steps
and kills at any point: what is installed at the sidecar path is nothing or a complete version that some flusher marshalled -
never a truncated or partly written file, so an interrupted update leaves the previous valid version -/
theorem C05_replace_atomic (n : Nat) (as : List Step) (s : St) (h : run true (init n) as = some s) : diskOk s :=
  (inv_run (inv_init n) h).disk

/-- the file at the sidecar path changes only by a rename, to the complete temp file of the flusher that renames -/
theorem C05_replace_only_by_rename (n : Nat) (as : List Step) (s s' : St) (a : Step) (h : run true (init n) as = some s)
    (hs : step true s a = some s') : s'.disk = s.disk ∨ ∃ j b, a = .rename j ∧ s.pcs[j]? = some (Pc.wroteTmp b) ∧ s'.disk = some (File.full b) := by
  have hI := inv_run (inv_init n) h
  cases a with
  | begin_ j b => simp only [step] at hs; split at hs <;> simp at hs; subst hs; exact Or.inl rfl
  | trunc j => simp only [step] at hs; split at hs <;> simp at hs; subst hs; exact Or.inl rfl
  | finish j => simp only [step] at hs; split at hs <;> simp at hs; subst hs; exact Or.inl rfl
  | rename j =>
    simp only [step] at hs
    split at hs
    · rename_i b hp
      have ⟨htmp, _⟩ := hI.wrote j b hp
      rw [htmp] at hs
      simp only at hs
      injection hs with hs; subst hs
      exact Or.inr ⟨j, b, rfl, hp, rfl⟩
    all_goals cases hs
  | end_ j => simp only [step] at hs; split at hs <;> simp at hs; subst hs; exact Or.inl rfl
  | kill => simp only [step] at hs; injection hs with hs; subst hs; exact Or.inl rfl

/-- premises satisfiable: two flushers one after the other, a kill between the second one's temp write and its rename -/
example : ∃ s, run true (init 2) [.begin_ 0 5, .trunc 0, .finish 0, .rename 0, .end_ 0, .begin_ 1 7, .trunc 1, .finish 1, .kill] = some s ∧
    s.disk = some (File.full 5) ∧ s.tmp = some (File.full 7) := ⟨_, rfl, rfl, rfl⟩

/-- with the mutex a second flusher cannot start while the first is between its temp write and its rename -/
example : run true (init 2) [.begin_ 0 5, .trunc 0, .finish 0, .begin_ 1 7] = none := by decide

/-- without the mutex around the I/O (a seeded change moved it out): flusher 0 has written the temp file, flusher 1 truncates it,
flusher 0 renames - a truncated file is installed and the previous valid version (5) is gone -/
theorem C05_replace_not_atomic_without_mutex :
    ∃ s, run false (init 2) [.begin_ 0 5, .trunc 0, .finish 0, .rename 0, .end_ 0, .begin_ 0 6, .trunc 0, .finish 0, .begin_ 1 7, .trunc 1, .rename 0] = some s ∧
      s.disk = some (File.torn 1) ∧ ¬ diskOk s := by
  refine ⟨_, rfl, rfl, ?_⟩
  intro h
  rcases h with h | ⟨b, h, _⟩
  · cases h
  · cases h

open TV.Gen.Shapes in
set_option maxRecDepth 16384 in
/-- `Sidecar.Flush` takes the sidecar mutex first and releases it when it returns: marshal, temp write, rename and the `dirty`
reset all happen under it (the `mutex = true` instance is the code); the temp name is the fixed `<path>.tmp` -/
theorem C05_source_flush_locked :
    sidecar_flush_head = ["s.mu.Lock()", "defer s.mu.Unlock()"] ∧
    sidecar_flush_io = ["temp := s.Path + \".tmp\"", "verifhook.Point(\"sidecar.between_tmp_and_rename\")", "verifhook.Point(\"sidecar.after_rename\")", "s.dirty = false"] ∧
    sidecar_flush_write_args = ["temp, buf.Bytes(), 0644"] ∧ sidecar_flush_rename_args = ["temp, s.Path"] := by decide

end TV.Flushers
