import ThruVerif.Model.Url
import ThruVerif.Gen.Shapes
/-!
# C16 — Clients work against every documented server configuration

* `unescape_escape`: `unescape m (escape m s) = some s` for every byte string, in both escaping modes.
* `C16_ws`: for every join code, peer id and role (arbitrary bytes, including `& = ; % + # ? /` and non-UTF-8) and every
  `max_receivers`, the server's `Query().Get` on the query `buildWebSocketURL` assembles returns exactly those three strings.
* `C16_turn`: for every user and secret (arbitrary bytes; the server's user is `expiry:peerID`), every TURN entry
  `turn|turns`, `host:port`, optional query: the client's parse of the URL the server mints returns the same scheme, user,
  secret, `host:port` and query.
* `C16_session`: for every `--session-timeout` (0 included) the client decodes the `/session` response and gets the
  server's id and code; the expiry is absent exactly when the timeout is 0.
-/
namespace TV.Url

/-! ### bytes -/

theorem byte_ind (P : UInt8 → Prop) (h : ∀ n, n < 256 → P (UInt8.ofNat n)) (c : UInt8) : P c := by
  have := h c.toNat c.toNat_lt
  simpa using this

theorem hex_roundtrip (c : UInt8) :
    unhex (hexUpper (c >>> 4)) = some (c >>> 4) ∧ unhex (hexUpper (c &&& 15)) = some (c &&& 15) ∧
      ((c >>> 4) <<< 4 ||| (c &&& 15)) = c := by
  revert c; apply byte_ind; decide +kernel

theorem kept_facts (m : Mode) (c : UInt8) (h : shouldEscape m c = false) :
    c ≠ 0x25 ∧ (m = .query → c ≠ 0x2b) := by
  revert c; apply byte_ind; cases m <;> decide +kernel

/-- which bytes can occur in escaped output -/
def outOK (m : Mode) (x : UInt8) : Bool :=
  isUnreserved x || x == 0x25 || (m == .query && x == 0x2b) ||
    (m == .userPassword && (x == 0x24 || x == 0x26 || x == 0x2b || x == 0x2c || x == 0x3b || x == 0x3d))

theorem escChar_out (m : Mode) (c : UInt8) : ∀ x ∈ escChar m c, outOK m x = true := by
  revert c; apply byte_ind; cases m <;> decide +kernel

theorem escape_out (m : Mode) (s : Bytes) : ∀ x ∈ escape m s, outOK m x = true := by
  induction s with
  | nil => simp [escape]
  | cons c cs ih =>
    intro x hx
    simp only [escape, List.mem_append] at hx
    rcases hx with hx | hx
    · exact escChar_out m c x hx
    · exact ih x hx

theorem outOK_query_delims (x : UInt8) (h : outOK .query x = true) :
    x ≠ 0x26 ∧ x ≠ 0x3d ∧ x ≠ 0x3b ∧ x ≠ 0x23 ∧ x ≠ 0x3f := by
  revert x; apply byte_ind; decide +kernel

theorem outOK_user_delims (x : UInt8) (h : outOK .userPassword x = true) :
    x ≠ 0x40 ∧ x ≠ 0x2f ∧ x ≠ 0x3f ∧ x ≠ 0x3a ∧ x ≠ 0x23 := by
  revert x; apply byte_ind; decide +kernel

/-! ### round trip -/

theorem unescape_keep (m : Mode) (c : UInt8) (cs : Bytes) (hc : (c == 0x25) = false) :
    unescape m (c :: cs) = (unescape m cs).map ((if c == 0x2b && m == .query then 0x20 else c) :: ·) := by
  rw [unescape.eq_def]
  simp only [hc, Bool.false_eq_true, ↓reduceIte]
  cases unescape m cs <;> simp

theorem unescape_pct (m : Mode) (a b x y : UInt8) (rest : Bytes) (ha : unhex a = some x) (hb : unhex b = some y) :
    unescape m (0x25 :: a :: b :: rest) = (unescape m rest).map ((x <<< 4 ||| y) :: ·) := by
  rw [unescape.eq_def]
  simp only [beq_self_eq_true, ↓reduceIte, ha, hb]
  cases unescape m rest <;> simp

theorem unescape_escChar (m : Mode) (c : UInt8) (rest : Bytes) :
    unescape m (escChar m c ++ rest) = (unescape m rest).map (c :: ·) := by
  unfold escChar
  split
  · rename_i h
    simp only [Bool.and_eq_true, beq_iff_eq] at h
    obtain ⟨hc, hm⟩ := h
    subst hc; subst hm
    simp only [List.cons_append, List.nil_append]
    rw [unescape_keep _ _ _ (by decide)]
    simp
  · split
    · have ⟨h1, h2, h3⟩ := hex_roundtrip c
      simp only [List.cons_append, List.nil_append]
      rw [unescape_pct m _ _ _ _ rest h1 h2, h3]
    · rename_i hq hs
      have hs' : shouldEscape m c = false := by simpa using hs
      have ⟨h25, h2b⟩ := kept_facts m c hs'
      simp only [List.cons_append, List.nil_append]
      have e1 : (c == 0x25) = false := by simpa using h25
      have e2 : (c == 0x2b && m == Mode.query) = false := by
        cases m
        · have := h2b rfl; simp [this]
        · simp
      rw [unescape_keep m c rest e1, e2]
      simp

theorem unescape_escape (m : Mode) (s : Bytes) : unescape m (escape m s) = some s := by
  induction s with
  | nil => simp [escape, unescape]
  | cons c cs ih => simp [escape, unescape_escChar, ih]

/-! ### cutting -/

def NoByte (p : UInt8 → Bool) (l : Bytes) : Prop := ∀ c ∈ l, p c = false

theorem NoByte.append {p a b} (ha : NoByte p a) (hb : NoByte p b) : NoByte p (a ++ b) := by
  intro c hc; rcases List.mem_append.1 hc with h | h
  · exact ha c h
  · exact hb c h

theorem NoByte.cons {p c l} (hc : p c = false) (hl : NoByte p l) : NoByte p (c :: l) := by
  intro x hx; rcases List.mem_cons.1 hx with h | h
  · subst h; exact hc
  · exact hl x h

theorem NoByte.nil {p} : NoByte p [] := by intro c hc; cases hc

theorem cutFirst_none {p : UInt8 → Bool} {l : Bytes} (h : NoByte p l) : cutFirst p l = (l, none) := by
  induction l with
  | nil => rfl
  | cons c cs ih =>
    have hc := h c (by simp)
    have := ih (fun x hx => h x (by simp [hx]))
    simp [cutFirst, hc, this]

theorem cutFirst_hit {p : UInt8 → Bool} {a : Bytes} {s : UInt8} {r : Bytes} (ha : NoByte p a) (hs : p s = true) :
    cutFirst p (a ++ s :: r) = (a, some r) := by
  induction a with
  | nil => simp [cutFirst, hs]
  | cons c cs ih =>
    have hc := ha c (by simp)
    have := ih (fun x hx => ha x (by simp [hx]))
    simp [cutFirst, hc, this]

theorem cutLast_hit {p : UInt8 → Bool} {a : Bytes} {s : UInt8} {r : Bytes} (hr : NoByte p r) (hs : p s = true) :
    cutLast p (a ++ s :: r) = (some a, r) := by
  unfold cutLast
  have : (a ++ s :: r).reverse = r.reverse ++ s :: a.reverse := by simp
  rw [this, cutFirst_hit (fun c hc => hr c (by simpa using hc)) hs]
  simp

theorem splitOn_ne_nil (sep : UInt8) (l : Bytes) : splitOn sep l ≠ [] := by
  induction l with
  | nil => simp [splitOn]
  | cons c cs ih =>
    simp only [splitOn]
    split
    · simp
    · split <;> simp

theorem splitOn_none {sep : UInt8} {l : Bytes} (h : NoByte (· == sep) l) : splitOn sep l = [l] := by
  induction l with
  | nil => rfl
  | cons c cs ih =>
    have hc := h c (by simp)
    have := ih (fun x hx => h x (by simp [hx]))
    simp [splitOn, this, hc]

theorem splitOn_hit {sep : UInt8} {a r : Bytes} (ha : NoByte (· == sep) a) :
    splitOn sep (a ++ sep :: r) = a :: splitOn sep r := by
  induction a with
  | nil =>
    simp only [List.nil_append, splitOn]
    cases hsr : splitOn sep r with
    | nil => exact absurd hsr (splitOn_ne_nil sep r)
    | cons p ps => simp
  | cons c cs ih =>
    have hc := ha c (by simp)
    have := ih (fun x hx => ha x (by simp [hx]))
    simp [splitOn, this, hc]

/-! ### the WebSocket query -/

theorem esc_query_noByte (s : Bytes) (b : UInt8) (hb : b = 0x26 ∨ b = 0x3d ∨ b = 0x3b) :
    NoByte (· == b) (escape .query s) := by
  intro c hc
  have := outOK_query_delims c (escape_out .query s c hc)
  rcases hb with rfl | rfl | rfl <;> simp [this]

theorem parsePair_kv (k e v : Bytes) (hk0 : k ≠ []) (hk : unescape .query k = some k)
    (hk1 : NoByte (· == 0x3d) k) (hk2 : NoByte (· == 0x3b) k) (he2 : NoByte (· == 0x3b) e)
    (hev : unescape .query e = some v) :
    parsePair (k ++ 0x3d :: e) = some (k, v) := by
  unfold parsePair
  have h1 : (k ++ 0x3d :: e).isEmpty = false := by cases k <;> simp_all
  have h2 : (k ++ 0x3d :: e).contains 0x3b = false := by
    have : NoByte (· == 0x3b) (k ++ 0x3d :: e) := hk2.append (NoByte.cons (by decide) he2)
    cases hc : (k ++ 0x3d :: e).contains 0x3b
    · rfl
    · rw [List.contains_iff_mem] at hc
      have := this 0x3b hc
      simp at this
  rw [h1, h2, cutFirst_hit hk1 (by decide)]
  simp [hk, hev]

theorem key_facts :
    (∀ k ∈ [kJoinCode, kPeerID, kRole], k ≠ [] ∧ unescape .query k = some k ∧
      NoByte (· == 0x3d) k ∧ NoByte (· == 0x3b) k ∧ NoByte (· == 0x26) k) := by
  intro k hk
  simp only [List.mem_cons, List.not_mem_nil, or_false] at hk
  rcases hk with rfl | rfl | rfl <;> refine ⟨by decide, by decide, ?_, ?_, ?_⟩ <;> (intro c hc; revert c; decide)

/-- the server reads back exactly what the client put into the WebSocket URL -/
theorem C16_ws (code peer role : Bytes) (maxReceivers : Nat) :
    queryGet (wsQuery code peer role maxReceivers) kJoinCode = code ∧
    queryGet (wsQuery code peer role maxReceivers) kPeerID = peer ∧
    queryGet (wsQuery code peer role maxReceivers) kRole = role := by
  obtain ⟨j0, ju, j1, j2, j3⟩ := key_facts kJoinCode (by simp)
  obtain ⟨p0, pu, p1, p2, p3⟩ := key_facts kPeerID (by simp)
  obtain ⟨r0, ru, r1, r2, r3⟩ := key_facts kRole (by simp)
  have amp := fun s => esc_query_noByte s 0x26 (Or.inl rfl)
  have semi := fun s => esc_query_noByte s 0x3b (Or.inr (Or.inr rfl))
  -- the first two segments
  have seg1 : NoByte (· == 0x26) (kJoinCode ++ 0x3d :: escape .query code) := j3.append (NoByte.cons (by decide) (amp code))
  have seg2 : NoByte (· == 0x26) (kPeerID ++ 0x3d :: escape .query peer) := p3.append (NoByte.cons (by decide) (amp peer))
  have seg3 : NoByte (· == 0x26) (kRole ++ 0x3d :: escape .query role) := r3.append (NoByte.cons (by decide) (amp role))
  have hsplit : ∃ tail, splitOn 0x26 (wsQuery code peer role maxReceivers) =
      (kJoinCode ++ 0x3d :: escape .query code) :: (kPeerID ++ 0x3d :: escape .query peer) ::
        (kRole ++ 0x3d :: escape .query role) :: tail := by
    unfold wsQuery
    split
    · refine ⟨splitOn 0x26 (kMaxReceivers ++ [0x3d] ++ digits maxReceivers), ?_⟩
      have e : kJoinCode ++ [0x3d] ++ escape .query code ++ [0x26] ++ kPeerID ++ [0x3d] ++ escape .query peer ++ [0x26] ++
          kRole ++ [0x3d] ++ escape .query role ++ ([0x26] ++ kMaxReceivers ++ [0x3d] ++ digits maxReceivers) =
          (kJoinCode ++ 0x3d :: escape .query code) ++ 0x26 :: ((kPeerID ++ 0x3d :: escape .query peer) ++ 0x26 ::
            ((kRole ++ 0x3d :: escape .query role) ++ 0x26 :: (kMaxReceivers ++ [0x3d] ++ digits maxReceivers))) := by
        simp [List.append_assoc]
      rw [e, splitOn_hit seg1, splitOn_hit seg2, splitOn_hit seg3]
    · refine ⟨[], ?_⟩
      have e : kJoinCode ++ [0x3d] ++ escape .query code ++ [0x26] ++ kPeerID ++ [0x3d] ++ escape .query peer ++ [0x26] ++
          kRole ++ [0x3d] ++ escape .query role ++ [] =
          (kJoinCode ++ 0x3d :: escape .query code) ++ 0x26 :: ((kPeerID ++ 0x3d :: escape .query peer) ++ 0x26 ::
            (kRole ++ 0x3d :: escape .query role)) := by
        simp [List.append_assoc]
      rw [e, splitOn_hit seg1, splitOn_hit seg2, splitOn_none seg3]
  obtain ⟨tail, hs⟩ := hsplit
  have pp1 := parsePair_kv kJoinCode (escape .query code) code j0 ju j1 j2 (semi code) (unescape_escape _ _)
  have pp2 := parsePair_kv kPeerID (escape .query peer) peer p0 pu p1 p2 (semi peer) (unescape_escape _ _)
  have pp3 := parsePair_kv kRole (escape .query role) role r0 ru r1 r2 (semi role) (unescape_escape _ _)
  have k12 : (kJoinCode == kPeerID) = false := by decide
  have k13 : (kJoinCode == kRole) = false := by decide
  have k23 : (kPeerID == kRole) = false := by decide
  refine ⟨?_, ?_, ?_⟩ <;> unfold queryGet <;> rw [hs] <;>
    simp [pp1, pp2, pp3, k12, k13, k23]

/-! ### TURN credentials -/

def hostOK (h : Bytes) : Prop :=
  NoByte (· == 0x40) h ∧ NoByte (· == 0x2f) h ∧ NoByte (· == 0x3f) h ∧ NoByte (· == 0x23) h

theorem esc_user_noByte (s : Bytes) (b : UInt8) (hb : b = 0x40 ∨ b = 0x2f ∨ b = 0x3f ∨ b = 0x3a ∨ b = 0x23) :
    NoByte (· == b) (escape .userPassword s) := by
  intro c hc
  have := outOK_user_delims c (escape_out .userPassword s c hc)
  rcases hb with rfl | rfl | rfl | rfl | rfl <;> simp [this]

theorem scheme_facts (t : TurnSpec) : NoByte (· == 0x3a) (scheme t) := by
  intro c hc; unfold scheme at hc; split at hc <;> (revert c; decide)

/-- the client parses the URL minted by the server back into the same scheme, user, secret, endpoint and options -/
theorem C16_turn (t : TurnSpec) (user pass : Bytes) (hh : hostOK t.hostPort) (hq : NoByte (· == 0x23) t.query) :
    parseTurn (inject t user pass) = some ⟨scheme t, user, pass, t.hostPort, t.query⟩ := by
  obtain ⟨hat, hsl, hqm, hfr⟩ := hh
  let eu := escape .userPassword user
  let ep := escape .userPassword pass
  have nb := fun s b hb => esc_user_noByte s b hb
  -- the part between "://" and the query
  let auth : Bytes := eu ++ 0x3a :: (ep ++ 0x40 :: t.hostPort)
  have auth_no (b : UInt8) (hb : b = 0x2f ∨ b = 0x3f ∨ b = 0x23) (hhost : NoByte (· == b) t.hostPort) : NoByte (· == b) auth := by
    have h1 : NoByte (· == b) eu := nb user b (by rcases hb with h | h | h <;> simp [h])
    have h2 : NoByte (· == b) ep := nb pass b (by rcases hb with h | h | h <;> simp [h])
    refine h1.append (NoByte.cons ?_ (h2.append (NoByte.cons ?_ hhost))) <;> rcases hb with h | h | h <;> subst h <;> decide
  have hinj : inject t user pass = scheme t ++ 0x3a :: 0x2f :: 0x2f :: (auth ++ (if t.query.isEmpty then [] else 0x3f :: t.query)) := by
    simp [inject, sep3, auth, eu, ep, List.append_assoc]
  unfold parseTurn
  rw [hinj, cutFirst_hit (scheme_facts t) (by decide)]
  simp only []
  have hui : cutLast (· == 0x40) auth = (some (eu ++ 0x3a :: ep), t.hostPort) := by
    have : auth = (eu ++ 0x3a :: ep) ++ 0x40 :: t.hostPort := by simp [auth, List.append_assoc]
    rw [this, cutLast_hit hat (by decide)]
  have hup : cutFirst (· == 0x3a) (eu ++ 0x3a :: ep) = (eu, some ep) :=
    cutFirst_hit (nb user 0x3a (by simp)) (by decide)
  by_cases hqe : t.query.isEmpty
  · have hq0 : t.query = [] := by simpa using hqe
    simp only [hqe, ↓reduceIte, List.append_nil]
    rw [cutFirst_none (auth_no 0x23 (by simp) hfr), cutFirst_none (auth_no 0x3f (by simp) hqm),
      cutFirst_none (auth_no 0x2f (by simp) hsl), hui]
    simp only [hup, unescape_escape, eu, ep, Option.getD_some, Option.getD_none, hq0]
  · simp only [hqe, Bool.false_eq_true, ↓reduceIte]
    have hnf : NoByte (· == 0x23) (auth ++ 0x3f :: t.query) :=
      (auth_no 0x23 (by simp) hfr).append (NoByte.cons (by decide) hq)
    rw [cutFirst_none hnf, cutFirst_hit (auth_no 0x3f (by simp) hqm) (by decide)]
    simp only []
    rw [cutFirst_none (auth_no 0x2f (by simp) hsl), hui]
    simp only [hup, unescape_escape, eu, ep, Option.getD_some]

/-- the URL the server mints carries the scheme the operator configured (turn / turns), whatever user and secret are -/
example : parseTurn (inject ⟨true, "h.example:5349".toUTF8.toList, "transport=tcp".toUTF8.toList⟩ "17:a@b/c?d:e".toUTF8.toList "p/w=".toUTF8.toList)
    = some ⟨sTurns, "17:a@b/c?d:e".toUTF8.toList, "p/w=".toUTF8.toList, "h.example:5349".toUTF8.toList, "transport=tcp".toUTF8.toList⟩ := by
  decide +kernel

/-! ### POST /session -/

theorem C16_session (id code : Bytes) (now ttl : Nat) :
    clientDecode (sessionResponse id code now ttl) = some (id, code, if ttl > 0 then some (now + ttl) else none) := by
  simp [clientDecode, sessionResponse]

theorem C16_ws_scheme : wsScheme [0x68, 0x74, 0x74, 0x70] = [0x77, 0x73] ∧ wsScheme [0x68, 0x74, 0x74, 0x70, 0x73] = [0x77, 0x73, 0x73] := by
  decide

open TV.Gen.Shapes in
/-- both clients keep of a `turn_credentials` envelope exactly the list the server issued: the handler passes `creds.Servers`,
`setTurnServersIfEmpty` stores a copy of its parameter and never rewrites it (no splitting, trimming or filtering between the minted
URL and `parseTurnServer`, which `C16_turn` is about) -/
theorem C16_source_turn_intake :
    sender_turn_intake_args = ["creds.Servers"] ∧ receiver_turn_intake_args = ["creds.Servers"] ∧
    sender_turn_keep = ["append([]string{}, servers...)"] ∧ receiver_turn_keep = ["append([]string{}, servers...)"] ∧
    sender_turn_rewrite = [] ∧ receiver_turn_rewrite = [] := by decide

end TV.Url
