import ThruVerif.Model.Admission
import ThruVerif.Gen.Shapes
import Mathlib.Data.List.Nodup
import Mathlib.Data.List.Perm.Subperm
/-!
# C12 — The host serves at most max-receivers at once, the rest in arrival order

`Inv` is proved for the initial state and preserved by every event, hence holds after every prefix of
every event history (`C12_reachable`), for every `max` and every number of receivers.
-/
namespace TV.C12
open TV.Admission

structure Inv (s : St) : Prop where
  qnodup : s.queue.Nodup
  qstat : ∀ p, p ∈ s.queue ↔ s.status p = some .queued
  anodup : (s.active.map (·.1)).Nodup
  astat : ∀ p, p ∈ s.active.map (·.1) ↔ s.status p = some .transferring
  cap : s.active.length ≤ s.max
  arun : ∀ p g, (p, g) ∈ s.active ↔ (⟨p, g, false⟩ : Run) ∈ s.running
  gens : ∀ r ∈ s.running, r.gen < s.nextGen
  rnodup : (s.running.map (·.gen)).Nodup

/-- a queued receiver waits only while every slot is busy (with `Inv.cap`: exactly `max` are busy) -/
def Eager (s : St) : Prop := s.queue ≠ [] → s.max ≤ s.active.length

theorem inv_init (max ttl : Nat) : Inv (init max ttl) := by
  constructor <;> simp [init]

theorem upd_same {α} (f : Nat → α) (k : Nat) (v : α) : upd f k v k = v := by simp [upd]
theorem upd_other {α} (f : Nat → α) (k : Nat) (v : α) (x : Nat) (h : x ≠ k) : upd f k v x = f x := by simp [upd, h]

/-- two runs with the same generation are the same run -/
theorem run_unique {rs : List Run} (h : (rs.map (·.gen)).Nodup) {a b : Run} (ha : a ∈ rs) (hb : b ∈ rs)
    (hg : a.gen = b.gen) : a = b := by
  induction rs with
  | nil => cases ha
  | cons r rs ih =>
    simp only [List.map_cons, List.nodup_cons, List.mem_map, not_exists, not_and] at h
    rcases List.mem_cons.mp ha with rfl | ha' <;> rcases List.mem_cons.mp hb with rfl | hb'
    · rfl
    · exact absurd hg.symm (h.1 b hb')
    · exact absurd hg (h.1 a ha')
    · exact ih h.2 ha' hb'

theorem maybeStart_max (now fuel : Nat) (s : St) : (maybeStart now fuel s).max = s.max := by
  induction fuel generalizing s with
  | zero => rfl
  | succ f ih =>
    simp only [maybeStart]
    split
    · rfl
    · split
      · rfl
      · split <;> simp [ih]

theorem maybeStart_inv (now fuel : Nat) (s : St) (h : Inv s) : Inv (maybeStart now fuel s) := by
  induction fuel generalizing s with
  | zero => exact h
  | succ f ih =>
    simp only [maybeStart]
    split
    · exact h
    · rename_i hfull
      split
      · exact h
      · rename_i p q hq
        have hpq : p ∈ s.queue := by rw [hq]; simp
        have hst : s.status p = some .queued := (h.qstat p).mp hpq
        have hnd := h.qnodup
        rw [hq, List.nodup_cons] at hnd
        simp only [hst]
        apply ih
        have hpa : p ∉ s.active.map (·.1) := by
          intro hc; have := (h.astat p).mp hc; rw [hst] at this; cases this
        constructor
        · exact hnd.2
        · intro p'
          by_cases hp : p' = p
          · subst hp; simp [upd_same, hnd.1]
          · have := h.qstat p'; rw [hq] at this
            simp only [upd_other _ _ _ _ hp]
            simp only [List.mem_cons, hp, false_or] at this
            exact this
        · simp only [List.map_append, List.map_cons, List.map_nil]
          rw [List.nodup_append]
          refine ⟨h.anodup, by simp, ?_⟩
          intro a ha b hb
          simp at hb; subst hb
          intro he; subst he; exact hpa ha
        · intro p'
          by_cases hp : p' = p
          · subst hp; simp [upd_same]
          · simp only [upd_other _ _ _ _ hp, List.map_append, List.map_cons, List.map_nil, List.mem_append,
              List.mem_singleton, hp, or_false]
            exact h.astat p'
        · simp only [List.length_append, List.length_singleton]; omega
        · intro p' g'
          simp only [List.mem_append, List.mem_singleton, Prod.mk.injEq, Run.mk.injEq, and_true]
          rw [h.arun p' g']
        · intro r hr
          simp only [List.mem_append, List.mem_singleton] at hr
          rcases hr with hr | rfl
          · have := h.gens r hr; show r.gen < s.nextGen + 1; omega
          · show s.nextGen < s.nextGen + 1; omega
        · simp only [List.map_append, List.map_cons, List.map_nil]
          rw [List.nodup_append]
          refine ⟨h.rnodup, by simp, ?_⟩
          intro a ha b hb
          simp at hb; subst hb
          simp only [List.mem_map] at ha
          obtain ⟨r, hr, rfl⟩ := ha
          have := h.gens r hr; omega

/-- `maybeStartTransfers` (fuel ≥ queue length) stops only with an empty queue or a full slot table -/
theorem maybeStart_eager (now fuel : Nat) (s : St) (hf : s.queue.length ≤ fuel) :
    Eager (maybeStart now fuel s) := by
  induction fuel generalizing s with
  | zero =>
    have : s.queue = [] := List.eq_nil_of_length_eq_zero (by omega)
    intro hne; exact absurd this hne
  | succ f ih =>
    simp only [maybeStart]
    split
    · rename_i hfull; intro _; exact hfull
    · split
      · rename_i hq; intro hne; exact absurd hq hne
      · rename_i p q hq
        have hlen : q.length ≤ f := by rw [hq] at hf; simp at hf; omega
        split
        · exact ih _ hlen
        · exact ih _ hlen
        · exact ih _ hlen

theorem step_inv (s : St) (e : Ev) (h : Inv s) : Inv (step s e) := by
  cases e with
  | joined p now =>
    simp only [step]
    constructor
    · exact h.qnodup
    · intro p'
      by_cases hp : p' = p
      · subst hp
        simp only [upd_same]
        rw [h.qstat p']
        cases hs : s.status p' with
        | none => simp
        | some v => cases v <;> simp
      · simp only [upd_other _ _ _ _ hp]; exact h.qstat p'
    · exact h.anodup
    · intro p'
      by_cases hp : p' = p
      · subst hp
        simp only [upd_same]
        rw [h.astat p']
        cases hs : s.status p' with
        | none => simp
        | some v => cases v <;> simp
      · simp only [upd_other _ _ _ _ hp]; exact h.astat p'
    · exact h.cap
    · exact h.arun
    · exact h.gens
    · exact h.rnodup
  | accept p now =>
    simp only [step]
    split
    · apply maybeStart_inv
      exact ⟨h.qnodup, h.qstat, h.anodup, h.astat, h.cap, h.arun, h.gens, h.rnodup⟩
    · rename_i hnt
      apply maybeStart_inv
      have hpa : p ∉ s.active.map (·.1) := by
        intro hc; exact hnt ((h.astat p).mp hc)
      constructor
      · simp only
        split
        · exact h.qnodup
        · rename_i hnq
          rw [List.nodup_append]
          refine ⟨h.qnodup, by simp, ?_⟩
          intro a ha b hb; simp at hb; subst hb
          intro he; subst he; exact hnq ha
      · intro p'
        by_cases hp : p' = p
        · subst hp; simp only [upd_same]
          split <;> simp_all
        · simp only [upd_other _ _ _ _ hp]
          split
          · exact h.qstat p'
          · simp only [List.mem_append, List.mem_singleton, hp, or_false]; exact h.qstat p'
      · exact h.anodup
      · intro p'
        by_cases hp : p' = p
        · subst hp; simp only [upd_same]
          constructor
          · intro hc; exact absurd hc hpa
          · intro hc; cases hc
        · simp only [upd_other _ _ _ _ hp]; exact h.astat p'
      · exact h.cap
      · exact h.arun
      · exact h.gens
      · exact h.rnodup
  | left p now =>
    simp only [step]
    apply maybeStart_inv
    constructor
    · exact List.Nodup.filter _ h.qnodup
    · intro p'
      simp only [List.mem_filter, decide_eq_true_eq]
      by_cases hp : p' = p
      · subst hp; simp only [upd_same, ne_eq, not_true_eq_false, and_false, false_iff]
        cases hs : s.status p' with
        | none => simp
        | some v => cases v <;> simp
      · simp only [upd_other _ _ _ _ hp, ne_eq, hp, not_false_eq_true, and_true]; exact h.qstat p'
    · have := List.Nodup.filter (fun x : Nat × Nat => decide (x.1 ≠ p)) (l := s.active)
      have hsub : (s.active.filter (fun x => decide (x.1 ≠ p))).map (·.1) = (s.active.map (·.1)).filter (fun x => decide (x ≠ p)) := by
        rw [List.filter_map]; rfl
      rw [hsub]; exact List.Nodup.filter _ h.anodup
    · intro p'
      simp only [List.mem_map, List.mem_filter, decide_eq_true_eq]
      by_cases hp : p' = p
      · subst hp; simp only [upd_same]
        constructor
        · rintro ⟨a, ⟨_, hne⟩, rfl⟩; exact absurd rfl hne
        · intro hc
          cases hs : s.status p' with
          | none => simp [hs] at hc
          | some v => cases v <;> simp [hs] at hc
      · simp only [upd_other _ _ _ _ hp]
        rw [← h.astat p']
        simp only [List.mem_map]
        constructor
        · rintro ⟨a, ⟨ha, _⟩, rfl⟩; exact ⟨a, ha, rfl⟩
        · rintro ⟨a, ha, rfl⟩; exact ⟨a, ⟨ha, hp⟩, rfl⟩
    · exact Nat.le_trans (List.length_filter_le _ _) h.cap
    · intro p' g'
      simp only [List.mem_filter, decide_eq_true_eq]
      cases hf : s.active.find? (·.1 = p) with
      | none =>
        simp only
        have hno : ∀ a ∈ s.active, a.1 ≠ p := by
          intro a ha he
          have := List.find?_eq_none.mp hf a ha
          simp [he] at this
        rw [← h.arun p' g']
        constructor
        · exact fun ⟨ha, _⟩ => ha
        · exact fun ha => ⟨ha, hno _ ha⟩
      | some pg =>
        obtain ⟨p0, g0⟩ := pg
        have hmem : (p0, g0) ∈ s.active := List.mem_of_find?_eq_some hf
        have hp0 : p0 = p := by have := List.find?_some hf; simpa using this
        subst hp0
        have hr0 : (⟨p0, g0, false⟩ : Run) ∈ s.running := (h.arun p0 g0).mp hmem
        simp only [cancelGen, List.mem_map]
        constructor
        · rintro ⟨ha, hne⟩
          have hr := (h.arun p' g').mp ha
          refine ⟨⟨p', g', false⟩, hr, ?_⟩
          have hg : g' ≠ g0 := by
            intro he; subst he
            have := run_unique h.rnodup hr hr0 rfl
            simp at this; exact hne this
          simp [hg]
        · rintro ⟨r, hr, hre⟩
          by_cases hg : r.gen = g0
          · simp [hg] at hre
          · simp only [hg, if_false] at hre
            have hr' : (⟨p', g', false⟩ : Run) ∈ s.running := hre ▸ hr
            have hg' : g' ≠ g0 := by rw [hre] at hg; exact hg
            have ha := (h.arun p' g').mpr hr'
            refine ⟨ha, ?_⟩
            intro he
            have : (p', g') = (p0, g0) := List.inj_on_of_nodup_map h.anodup ha hmem (by simpa using he)
            simp at this; exact hg' this.2
    · intro r hr
      cases hf : s.active.find? (·.1 = p) with
      | none => simp only [hf] at hr; exact h.gens r hr
      | some pg =>
        simp only [hf, cancelGen, List.mem_map] at hr
        obtain ⟨r0, hr0, rfl⟩ := hr
        have := h.gens r0 hr0
        split <;> simpa using this
    · cases hf : s.active.find? (·.1 = p) with
      | none => simp only; exact h.rnodup
      | some pg =>
        simp only [cancelGen, List.map_map]
        have : ((fun r : Run => r.gen) ∘ fun r : Run => if r.gen = pg.2 then { r with cancelled := true } else r) = (·.gen) := by
          funext r; simp only [Function.comp]; split <;> rfl
        rw [this]; exact h.rnodup
  | finished g ok now =>
    simp only [step]
    cases hf : s.running.find? (·.gen = g) with
    | none => exact h
    | some r =>
      have hr : r ∈ s.running := List.mem_of_find?_eq_some hf
      have hrg : r.gen = g := by have := List.find?_some hf; simpa using this
      have hgens' : ∀ r' ∈ s.running.filter (fun x => decide (x.gen ≠ g)), r'.gen < s.nextGen :=
        fun r' hr' => h.gens r' (List.mem_of_mem_filter hr')
      have hrn' : ((s.running.filter (fun x => decide (x.gen ≠ g))).map (·.gen)).Nodup := by
        have : (s.running.filter (fun x => decide (x.gen ≠ g))).map (·.gen) = (s.running.map (·.gen)).filter (fun x => decide (x ≠ g)) := by
          rw [List.filter_map]; rfl
        rw [this]; exact List.Nodup.filter _ h.rnodup
      simp only
      split
      · rename_i hact
        apply maybeStart_inv
        have hrf : r = ⟨r.peer, g, false⟩ := by
          have := (h.arun r.peer g).mp hact
          exact run_unique h.rnodup hr this (by simp [hrg])
        have hstr : s.status r.peer = some .transferring :=
          (h.astat r.peer).mp (List.mem_map.mpr ⟨(r.peer, g), hact, rfl⟩)
        constructor
        · exact h.qnodup
        · intro p'
          simp only [hstr]
          by_cases hp : p' = r.peer
          · subst hp; simp only [upd_same]
            rw [h.qstat, hstr]; cases ok <;> simp
          · simp only [upd_other _ _ _ _ hp]; exact h.qstat p'
        · have hsub : List.Sublist ((s.active.filter (fun x => decide (x ≠ (r.peer, g)))).map (·.1)) (s.active.map (·.1)) :=
            List.Sublist.map _ (List.filter_sublist)
          exact List.Nodup.sublist hsub h.anodup
        · intro p'
          simp only [hstr, List.mem_map, List.mem_filter, decide_eq_true_eq]
          by_cases hp : p' = r.peer
          · subst hp; simp only [upd_same]
            constructor
            · rintro ⟨a, ⟨ha, hne⟩, hfst⟩
              have : a = (r.peer, g) := List.inj_on_of_nodup_map h.anodup ha hact hfst
              exact absurd this hne
            · intro hc; cases ok <;> simp at hc
          · simp only [upd_other _ _ _ _ hp]
            rw [← h.astat p']
            simp only [List.mem_map]
            constructor
            · rintro ⟨a, ⟨ha, _⟩, rfl⟩; exact ⟨a, ha, rfl⟩
            · rintro ⟨a, ha, rfl⟩
              exact ⟨a, ⟨ha, by intro he; subst he; exact hp rfl⟩, rfl⟩
        · exact Nat.le_trans (List.length_filter_le _ _) h.cap
        · intro p' g'
          simp only [List.mem_filter, decide_eq_true_eq]
          rw [h.arun p' g']
          constructor
          · rintro ⟨hm, hne⟩
            refine ⟨hm, ?_⟩
            intro hg; (try simp only at hg); subst hg
            have := run_unique h.rnodup hm hr (by simp [hrg])
            rw [← this] at hne; exact hne rfl
          · rintro ⟨hm, hne⟩
            refine ⟨hm, ?_⟩
            intro he; cases he; exact hne rfl
        · exact hgens'
        · exact hrn'
      · rename_i hnact
        apply maybeStart_inv
        refine ⟨h.qnodup, h.qstat, h.anodup, h.astat, h.cap, ?_, hgens', hrn'⟩
        intro p' g'
        simp only [List.mem_filter, decide_eq_true_eq]
        rw [h.arun p' g']
        constructor
        · intro hm
          refine ⟨hm, ?_⟩
          intro hg; (try simp only at hg); subst hg
          have := run_unique h.rnodup hm hr (by simp [hrg])
          subst this
          exact hnact ((h.arun _ _).mpr hm)
        · exact fun ⟨hm, _⟩ => hm
  | tick now =>
    simp only [step]
    constructor
    · exact List.Nodup.filter _ h.qnodup
    · intro p'
      have hq := h.qstat p'
      cases hs : s.status p' with
      | none => rw [hs] at hq; simp [List.mem_filter, hs, hq]
      | some v => rw [hs] at hq; cases v <;> simp [List.mem_filter, hs, hq]
    · exact h.anodup
    · intro p'
      rw [h.astat p']
      cases hs : s.status p' with
      | none => simp [hs]
      | some v => cases v <;> simp [hs]
    · exact h.cap
    · exact h.arun
    · exact h.gens
    · exact h.rnodup

/-- **C12_reachable.** The invariant holds after every event history. -/
theorem C12_reachable (max ttl : Nat) (evs : List Ev) : Inv (run (init max ttl) evs) := by
  suffices ∀ s, Inv s → Inv (run s evs) from this _ (inv_init max ttl)
  induction evs with
  | nil => exact fun s h => h
  | cons e es ih => exact fun s h => ih _ (step_inv s e h)

theorem max_const (s : St) (e : Ev) : (step s e).max = s.max := by
  cases e with
  | joined p now => rfl
  | accept p now => simp only [step]; split <;> rw [maybeStart_max]
  | left p now => simp only [step]; rw [maybeStart_max]
  | finished g ok now =>
    simp only [step]
    split
    · rfl
    · split <;> rw [maybeStart_max]
  | tick now => rfl

/-- **C12_cap.** Never more simultaneous (un-cancelled) transfers than `max`; the slot table is exactly
    the set of running, un-cancelled transfers. -/
theorem C12_cap (s : St) (h : Inv s) :
    (s.running.filter (fun r => !r.cancelled)).length ≤ s.max ∧ s.active.length ≤ s.max := by
  refine ⟨?_, h.cap⟩
  -- the un-cancelled running transfers inject into the slot table
  have hsub : ∀ r ∈ s.running.filter (fun r => !r.cancelled), (r.peer, r.gen) ∈ s.active := by
    intro r hr
    simp only [List.mem_filter, Bool.not_eq_true'] at hr
    have : r = ⟨r.peer, r.gen, false⟩ := by cases r; simp_all
    rw [this] at hr; exact (h.arun _ _).mpr hr.1
  have hnd : ((s.running.filter (fun r => !r.cancelled)).map (fun r => (r.peer, r.gen))).Nodup := by
    have h1 : List.Sublist ((s.running.filter (fun r => !r.cancelled)).map (·.gen)) (s.running.map (·.gen)) :=
      List.Sublist.map _ List.filter_sublist
    have h2 := List.Nodup.sublist h1 h.rnodup
    have hc : ((fun x : Nat × Nat => x.2) ∘ fun r : Run => (r.peer, r.gen)) = (·.gen) := rfl
    exact List.Nodup.of_map (fun x : Nat × Nat => x.2) (by rw [List.map_map, hc]; exact h2)
  have hle : ((s.running.filter (fun r => !r.cancelled)).map (fun r => (r.peer, r.gen))).length ≤ s.active.length := by
    apply List.Subperm.length_le
    apply List.subperm_of_subset hnd
    intro x hx
    simp only [List.mem_map] at hx
    obtain ⟨r, hr, rfl⟩ := hx
    exact hsub r hr
  simp only [List.length_map] at hle
  exact Nat.le_trans hle h.cap

/-- **C12_exclusive.** Every receiver is in at most one of queued / transferring / done / failed, and the
    queue and the slot table say the same as the statuses. -/
theorem C12_exclusive (s : St) (h : Inv s) (p : Nat) :
    (p ∈ s.queue ↔ s.status p = some .queued) ∧ (p ∈ s.active.map (·.1) ↔ s.status p = some .transferring) ∧
    s.queue.Nodup ∧ ¬ (p ∈ s.queue ∧ p ∈ s.active.map (·.1)) := by
  refine ⟨h.qstat p, h.astat p, h.qnodup, ?_⟩
  rintro ⟨h1, h2⟩
  have a := (h.qstat p).mp h1
  have b := (h.astat p).mp h2
  rw [a] at b; cases b

/-- **C12_eager.** After accept / leave / transfer end, nobody waits while a slot is free; join and
    idle-cleanup keep that. -/
theorem C12_eager (s : St) (e : Ev) (he : Eager s) : Eager (step s e) := by
  cases e with
  | joined p now => exact he
  | accept p now =>
    simp only [step]
    split <;> exact maybeStart_eager _ _ _ (Nat.le_refl _)
  | left p now => simp only [step]; exact maybeStart_eager _ _ _ (Nat.le_refl _)
  | finished g ok now =>
    simp only [step]
    split
    · exact he
    · split <;> exact maybeStart_eager _ _ _ (Nat.le_refl _)
  | tick now =>
    simp only [step, Eager]
    intro hne
    apply he
    intro hq; rw [hq] at hne; simp at hne

/-- `maybeStartTransfers` touches only receivers that are in the queue -/
theorem maybeStart_untouched (now fuel : Nat) (s : St) (p : Nat) (hq : p ∉ s.queue) :
    p ∉ (maybeStart now fuel s).queue ∧
    (p ∈ (maybeStart now fuel s).active.map (·.1) → p ∈ s.active.map (·.1)) ∧
    (∀ r ∈ (maybeStart now fuel s).running, r.peer = p → r ∈ s.running) := by
  induction fuel generalizing s with
  | zero => exact ⟨hq, id, fun _ hr _ => hr⟩
  | succ f ih =>
    simp only [maybeStart]
    split
    · exact ⟨hq, id, fun _ hr _ => hr⟩
    · split
      · exact ⟨hq, id, fun _ hr _ => hr⟩
      · rename_i p0 q heq
        have hne : p ≠ p0 := by intro he; subst he; rw [heq] at hq; simp at hq
        have hq' : p ∉ q := by intro hc; rw [heq] at hq; exact hq (by simp [hc])
        split
        · exact ih { s with queue := q } hq'
        · exact ih { s with queue := q } hq'
        · have := ih { s with
              queue := q
              status := upd s.status p0 (some .transferring)
              lastSeen := upd s.lastSeen p0 now
              active := s.active ++ [(p0, s.nextGen)]
              running := s.running ++ [⟨p0, s.nextGen, false⟩]
              nextGen := s.nextGen + 1 } hq'
          obtain ⟨h1, h2, h3⟩ := this
          refine ⟨h1, ?_, ?_⟩
          · intro hm
            have := h2 hm
            simp only [List.map_append, List.map_cons, List.map_nil, List.mem_append, List.mem_singleton] at this
            rcases this with h | h
            · exact h
            · exact absurd h hne
          · intro r hr hp
            have := h3 r hr hp
            simp only [List.mem_append, List.mem_singleton] at this
            rcases this with h | h
            · exact h
            · subst h; exact absurd hp.symm hne

/-- **C12_leave.** After a receiver left it is neither queued nor in a slot, and every transfer still
    running for it has been cancelled. -/
theorem C12_leave (s : St) (p now : Nat) (h : Inv s) :
    p ∉ (step s (.left p now)).queue ∧ p ∉ (step s (.left p now)).active.map (·.1) ∧
    ∀ r ∈ (step s (.left p now)).running, r.peer = p → r.cancelled = true := by
  simp only [step]
  have hq : p ∉ s.queue.filter (fun x => decide (x ≠ p)) := by simp [List.mem_filter]
  obtain ⟨h1, h2, h3⟩ := maybeStart_untouched now _ { s with
      status := upd s.status p (match s.status p with | none => none | some .done => some .done | some _ => some .failed)
      lastSeen := match s.status p with
        | none => s.lastSeen
        | some .done => s.lastSeen
        | some _ => upd s.lastSeen p now
      running := match s.active.find? (·.1 = p) with
        | some (_, g) => cancelGen g s.running
        | none => s.running
      active := s.active.filter (·.1 ≠ p)
      queue := s.queue.filter (· ≠ p) } p hq
  refine ⟨h1, ?_, ?_⟩
  · intro hm
    have := h2 hm
    simp only [List.mem_map, List.mem_filter, decide_eq_true_eq] at this
    obtain ⟨a, ⟨_, hne⟩, hfst⟩ := this
    exact hne hfst
  · intro r hr hp
    have hr1 := h3 r hr hp
    simp only at hr1
    cases hf : s.active.find? (·.1 = p) with
    | none =>
      simp only [hf] at hr1
      -- no slot for p: an un-cancelled run of p would be in the slot table
      cases hc : r.cancelled with
      | true => rfl
      | false =>
        have : r = ⟨r.peer, r.gen, false⟩ := by cases r; simp_all
        rw [this] at hr1
        have ha := (h.arun _ _).mpr hr1
        have := List.find?_eq_none.mp hf _ ha
        simp [hp] at this
    | some pg =>
      obtain ⟨p0, g0⟩ := pg
      have hmem : (p0, g0) ∈ s.active := List.mem_of_find?_eq_some hf
      have hp0 : p0 = p := by have := List.find?_some hf; simpa using this
      subst hp0
      simp only [hf, cancelGen, List.mem_map] at hr1
      obtain ⟨r0, hr0, hre⟩ := hr1
      by_cases hg : r0.gen = g0
      · simp only [hg, if_true] at hre; rw [← hre]
      · simp only [hg, if_false] at hre
        subst hre
        cases hc : r0.cancelled with
        | true => rfl
        | false =>
          have : r0 = ⟨r0.peer, r0.gen, false⟩ := by cases r0; simp_all
          rw [this] at hr0
          have ha := (h.arun _ _).mpr hr0
          have : (r0.peer, r0.gen) = (p0, g0) := List.inj_on_of_nodup_map h.anodup ha hmem (by simpa using hp)
          simp at this; exact absurd this.2 hg

-- non-vacuity: a concrete history through all event kinds reaches a state with a busy slot and a waiting receiver
example : (run (init 1 600) [.joined 1 0, .accept 1 0, .joined 2 0, .accept 2 0]).queue = [2] ∧
    (run (init 1 600) [.joined 1 0, .accept 1 0, .joined 2 0, .accept 2 0]).active = [(1, 0)] := by decide

/-- the P11 history (stale finish after leave + re-accept) no longer frees the new slot -/
example : ((run (init 1 600) [.accept 1 0, .left 1 0, .accept 1 0, .accept 2 0, .finished 0 false 0]).running.filter
    (fun r => !r.cancelled)).length = 1 := by decide

/-! ## the decision structure of the source, as regenerated on this run (xlate, `Gen/Shapes.lean`) -/

/-! ### a waiting receiver keeps its place until it is served or leaves -/

def Waiting (s : St) (p : Nat) : Prop := s.status p = some .queued ∨ s.status p = some .transferring

theorem maybeStart_keeps (now fuel : Nat) (s : St) (p : Nat) (h : Waiting s p) : Waiting (maybeStart now fuel s) p := by
  induction fuel generalizing s with
  | zero => exact h
  | succ f ih =>
    simp only [maybeStart]
    split
    · exact h
    · split
      · exact h
      · split
        · exact ih _ h
        · exact ih _ h
        · apply ih
          unfold Waiting at h ⊢
          simp only [upd]
          split
          · right; rfl
          · exact h

/-- `maybeStartTransfers` serves from the head: what is left of the queue is a suffix of it -/
theorem maybeStart_suffix (now fuel : Nat) (s : St) : (maybeStart now fuel s).queue <:+ s.queue := by
  induction fuel generalizing s with
  | zero => exact List.suffix_refl _
  | succ f ih =>
    simp only [maybeStart]
    split
    · exact List.suffix_refl _
    · split
      · exact List.suffix_refl _
      · rename_i p q hq
        rw [hq]
        split
        · exact (ih _).trans (List.suffix_cons p q)
        · exact (ih _).trans (List.suffix_cons p q)
        · exact (ih _).trans (List.suffix_cons p q)

/-- **C12_waiting_kept.** A receiver that accepted and is waiting for a slot leaves the queue in two ways only: it is started, or it
    leaves. No other event - another receiver's join, accept, leave or transfer end, and no idle clean-up tick however late - drops it. -/
theorem C12_waiting_kept (s : St) (h : Inv s) (p : Nat) (hq : s.status p = some .queued) (e : Ev) (hne : ∀ now, e ≠ .left p now) :
    (step s e).status p = some .queued ∨ (step s e).status p = some .transferring := by
  have hw : Waiting s p := Or.inl hq
  cases e with
  | joined q now =>
    simp only [step, upd]
    split
    · rename_i hpq; subst hpq; rw [hq]; left; rfl
    · exact hw
  | accept q now =>
    simp only [step]
    split
    · apply maybeStart_keeps; exact hw
    · apply maybeStart_keeps
      unfold Waiting
      simp only [upd]
      split
      · left; rfl
      · exact hw
  | left q now =>
    have hpq : p ≠ q := fun hh => hne now (by rw [hh])
    simp only [step]
    apply maybeStart_keeps
    unfold Waiting
    simp only [upd, hpq, if_false]
    exact hw
  | finished g ok now =>
    simp only [step]
    split
    · exact hw
    · rename_i r hr
      split
      · rename_i hact
        apply maybeStart_keeps
        unfold Waiting
        have hrp : r.peer ≠ p := by
          intro hh
          have : p ∈ s.active.map (·.1) := by
            rw [← hh]; exact List.mem_map.mpr ⟨(r.peer, g), hact, rfl⟩
          have := (h.astat p).mp this
          rw [hq] at this; cases this
        cases hs : s.status r.peer with
        | none => simp only; exact hw
        | some v =>
          simp only [upd]
          have : ¬ p = r.peer := fun hh => hrp hh.symm
          simp only [this, if_false]
          exact hw
      · apply maybeStart_keeps; exact hw
  | tick now =>
    simp only [step, hq]
    left; simp

/-- **C12_served_in_order.** Whatever the event, the receivers still waiting afterwards are the tail of the waiting line as the event
    left it (the accepted receiver appended, the leaver removed): slots are handed out from the head of the line, nobody overtakes. -/
theorem C12_served_in_order (s : St) (e : Ev) :
    ∃ line, (step s e).queue <:+ line ∧
      line = (match e with
        | .accept p _ => if s.status p = some .transferring ∨ p ∈ s.queue then s.queue else s.queue ++ [p]
        | .left p _ => s.queue.filter (· ≠ p)
        | .tick now => (step s (.tick now)).queue
        | _ => s.queue) := by
  cases e with
  | joined q now => exact ⟨_, List.suffix_refl _, rfl⟩
  | accept q now =>
    refine ⟨_, ?_, rfl⟩
    simp only [step]
    split
    · rename_i ht
      simp only [ht, true_or, if_true]
      exact maybeStart_suffix _ _ _
    · rename_i hnt
      have : ¬ s.status q = some .transferring := fun hh => hnt hh
      simp only [this, false_or]
      exact maybeStart_suffix _ _ _
  | left q now => exact ⟨_, maybeStart_suffix _ _ _, rfl⟩
  | finished g ok now =>
    refine ⟨_, ?_, rfl⟩
    simp only [step]
    split
    · exact List.suffix_refl _
    · split
      · exact maybeStart_suffix _ _ _
      · exact maybeStart_suffix _ _ _
  | tick now => exact ⟨_, List.suffix_refl _, rfl⟩

/-- premises satisfiable: one slot, receiver 0 is served, receiver 1 waits; twenty clean-up periods later it still waits, and is started
    the moment 0's transfer ends -/
example : ((run (init 1 10) [.accept 0 0, .accept 1 0, .tick 300]).status 1,
           (run (init 1 10) [.accept 0 0, .accept 1 0, .tick 300, .finished 0 true 301]).status 1) =
    (some .queued, some .transferring) := by decide

/-- the clean-up tick as it was: receiver 1, waiting for the one slot while receiver 0 is served for longer than the idle period, is
    forgotten - it never left, and when the slot frees nobody is started -/
theorem C12_waiting_kept_refuted_before_fix :
    ((runOld (init 1 10) [.accept 0 0, .accept 1 0, .tick 11]).status 1,
     (runOld (init 1 10) [.accept 0 0, .accept 1 0, .tick 11, .finished 0 true 12]).active) = (none, []) := by decide

open TV.Gen.Shapes in
set_option maxRecDepth 16384 in
/-- admission: the start loop's guards, the slot *identity* test of a returning transfer, and the leave handler -/
theorem C12_source_shapes :
    admission_start = ["len(s.active) >= s.maxRecv || len(s.queue) == 0", "state == nil", "state.Status == ReceiverStatusTransferring"] ∧
    admission_slot_identity = ["s.active[peerID] == slot"] ∧
    admission_left = ["state != nil && state.Status != ReceiverStatusDone", "slot != nil", "slot != nil ; slot.closeFn != nil",
      "slot != nil ; slot.cancel != nil", "queued != peerID"] ∧
    -- the idle clean-up tick decides and deletes inside one critical section (the model's `tick` is one step); receivers being
    -- served and receivers waiting in the queue are passed over
    admission_cleanup = ["now := s.now()", "changed := false", "s.mu.Lock()",
      "for peerID, state := range s.receivers { if state.Status == ReceiverStatusTransferring || state.Status == ReceiverStatusQueued { continue } if now.Sub(state.LastSeen) > s.receiverTTL { delete(s.receivers, peerID) changed = true } }",
      "if changed { filtered := make([]string, 0, len(s.queue)) for _, peerID := range s.queue { if _, ok := s.receivers[peerID]; ok { filtered = append(filtered, peerID) } } s.queue = filtered }",
      "s.mu.Unlock()", "if changed { s.emitChange() }"] := by decide

end TV.C12
