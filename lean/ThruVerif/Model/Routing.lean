/-!
Signaling message routing (`cmd/thruserv/main.go` `handleWebSocket` read loop over `internal/peers/hub.go`).

One connection = one handler goroutine reading its socket sequentially; per inbound text message:
JSON / `ValidateBasic` rejection, `env.From = peerID` (overwrite), then `SendTo(sess.ID, env.To, env)` or
`BroadcastExcept(sess.ID, peerID, env)`; unknown addressee: an `error` envelope written to the author's socket.
Every registered connection has a buffered channel (capacity `cap`) drained in order by one writer goroutine.

Granularity (the same as Model/Hub, whose theorems C11 justify the single routing table used here: the hub's two
maps always describe exactly the registered connections, one per (session, peer id)):

* `join`, `leave`, `closeSession` — one step each, under the hub's write lock, hence only while no broadcast is in
  progress (a broadcast holds the read lock from its look-up to its last queue attempt);
* an addressed message — one step (look-up and queue attempt under the read lock);
* an unaddressed message — look-up (`pend` entry with the frozen target list), then one step per target, in any
  order (Go map iteration), interleaved with everything that needs only the read lock;
* `deliver` — a writer goroutine hands the oldest queued envelope of its connection to the socket.

Ghost fields (`aconn`, `asid`, `seq` of an envelope; `ever`) record who really authored what; the code has no such
fields, the theorems relate them to what recipients see.
-/
namespace TV.Routing

abbrev Sid := Nat
abbrev Conn := Nat
abbrev Peer := Nat

structure Env where
  frm : Peer        -- the `from` the recipient sees; 0 = "server"
  to : Peer         -- 0 = unaddressed
  body : Nat
  aconn : Conn      -- ghost: the connection that authored it (0 = the server itself)
  asid : Sid        -- ghost: the author's session
  seq : Nat         -- ghost: position in the author's stream of accepted messages
  deriving DecidableEq, Repr

structure Member where
  sid : Sid
  conn : Conn
  peer : Peer
  deriving DecidableEq, Repr

/-- what a client may put on the wire -/
inductive Raw
  | garbage                                                        -- not JSON / not an envelope
  | env (v : Nat) (hasType hasId : Bool) (frm to : Peer) (body : Nat)
  deriving DecidableEq, Repr

structure Pend where
  env : Env
  targets : List Conn
  deriving DecidableEq, Repr

structure St where
  members : List Member          -- registered connections
  socks : List Member            -- connections whose handler is still reading (a replaced one keeps reading)
  ever : List Member             -- ghost: every connection that ever joined
  closedCh : List Conn
  queue : List (Conn × Env)      -- all channels; the projection on one connection is its FIFO
  recvd : List (Conn × Env)      -- handed to the socket by the writer
  dropped : List (Conn × Env)    -- channel full: skipped
  errs : List (Conn × Peer)      -- `peer_not_found` written to the author's own socket
  pend : List Pend               -- broadcasts between look-up and last queue attempt
  next : List (Conn × Nat)       -- ghost: accepted messages per author so far
  cap : Nat
  panicked : Bool
  deriving DecidableEq, Repr

def init (cap : Nat) : St :=
  { members := [], socks := [], ever := [], closedCh := [], queue := [], recvd := [], dropped := [], errs := [],
    pend := [], next := [], cap := cap, panicked := false }

def nextOf (s : St) (c : Conn) : Nat := ((s.next.find? (fun x => x.1 == c)).map (·.2)).getD 0

def bump (s : St) (c : Conn) : List (Conn × Nat) :=
  s.next.filter (fun x => x.1 != c) ++ [(c, nextOf s c + 1)]

def queueLen (s : St) (r : Conn) : Nat := (s.queue.filter (fun x => x.1 == r)).length

/-- `select { case pc.send <- env: default: }` -/
def trySend (s : St) (r : Conn) (e : Env) : St :=
  if r ∈ s.closedCh then { s with panicked := true }
  else if queueLen s r < s.cap then { s with queue := s.queue ++ [(r, e)] }
  else { s with dropped := s.dropped ++ [(r, e)] }

/-- first queued envelope of `r`, and the queue without it -/
def popFirst (r : Conn) : List (Conn × Env) → Option (Env × List (Conn × Env))
  | [] => none
  | x :: xs =>
    if x.1 == r then some (x.2, xs)
    else match popFirst r xs with
      | some (e, rest) => some (e, x :: rest)
      | none => none

def membersOf (s : St) (sid : Sid) : List Member := s.members.filter (fun m => m.sid == sid)

def lookup (s : St) (sid : Sid) (p : Peer) : Option Member :=
  s.members.find? (fun m => m.sid == sid && m.peer == p)

/-- JSON + `ValidateBasic` -/
def accepted : Raw → Option (Peer × Peer × Nat)
  | .garbage => none
  | .env v ht hi frm to body => if v == 1 && ht && hi then some (frm, to, body) else none

inductive Act
  | join (sid : Sid) (c : Conn) (p : Peer)
  | leave (c : Conn)                       -- `remove`: unregister (then the channel is closed)
  | hangup (c : Conn)                      -- the handler's read loop ends
  | closeSession (sid : Sid)
  | sys (sid : Sid) (body : Nat)           -- a server-originated broadcast (peer_joined / peer_left)
  | msg (c : Conn) (raw : Raw)             -- the handler of `c` reads one text message
  | bstep (i : Nat) (r : Conn)             -- the `i`-th broadcast in progress tries its target `r`
  | deliver (r : Conn)
  deriving DecidableEq, Repr

def step (s : St) : Act → Option St
  | .join sid c p =>
    if s.pend ≠ [] ∨ c = 0 ∨ s.ever.any (fun m => m.conn == c) then none else
    let old := (s.members.filter (fun m => m.sid == sid && m.peer == p)).map (·.conn)
    some { s with members := s.members.filter (fun m => !(m.sid == sid && m.peer == p)) ++ [⟨sid, c, p⟩]
                  socks := s.socks ++ [⟨sid, c, p⟩], ever := s.ever ++ [⟨sid, c, p⟩]
                  closedCh := s.closedCh ++ old }
  | .leave c =>
    if s.pend ≠ [] then none else
    if s.members.any (fun m => m.conn == c) then
      some { s with members := s.members.filter (fun m => m.conn != c), closedCh := s.closedCh ++ [c] }
    else some s
  | .hangup c =>
    if s.pend.any (fun p => p.env.aconn == c) then none else
    some { s with socks := s.socks.filter (fun m => m.conn != c) }
  | .closeSession sid =>
    if s.pend ≠ [] then none else
    some { s with members := s.members.filter (fun m => m.sid != sid)
                  closedCh := s.closedCh ++ (membersOf s sid).map (·.conn) }
  | .sys sid body =>
    some { s with pend := s.pend ++ [⟨⟨0, 0, body, 0, sid, 0⟩, (membersOf s sid).map (·.conn)⟩] }
  | .msg c raw =>
    match s.socks.find? (fun m => m.conn == c) with
    | none => none
    | some me =>
      if s.pend.any (fun p => p.env.aconn == c) then none else   -- still inside BroadcastExcept
      match accepted raw with
      | none => some s                                             -- logged and skipped
      | some (_claimed, to, body) =>
        let e : Env := ⟨me.peer, to, body, c, me.sid, nextOf s c⟩
        let s1 := { s with next := bump s c }
        if to ≠ 0 then
          match lookup s me.sid to with
          | some m => some (trySend s1 m.conn e)
          | none => some { s1 with errs := s1.errs ++ [(c, to)] }
        else
          let excl := (lookup s me.sid me.peer).map (·.conn)
          let targets := ((membersOf s me.sid).map (·.conn)).filter (fun t => some t != excl)
          some { s1 with pend := s1.pend ++ [⟨e, targets⟩] }
  | .bstep i r =>
    match s.pend[i]? with
    | none => none
    | some p =>
      if r ∈ p.targets then
        let s1 := trySend s r p.env
        let rest := p.targets.erase r
        some { s1 with pend := if rest = [] then s1.pend.eraseIdx i else s1.pend.set i ⟨p.env, rest⟩ }
      else none
  | .deliver r =>
    match popFirst r s.queue with
    | some (e, rest) => some { s with queue := rest, recvd := s.recvd ++ [(r, e)] }
    | none => none

def run (s : St) : List Act → Option St
  | [] => some s
  | a :: as => match step s a with | some s' => run s' as | none => none

inductive Reachable (cap : Nat) : St → Prop
  | init : Reachable cap (init cap)
  | step {s s' : St} (a : Act) : Reachable cap s → step s a = some s' → Reachable cap s'

/-- everything `r` has been given or still has queued, oldest first -/
def stream (s : St) (r : Conn) : List Env := ((s.recvd ++ s.queue).filter (fun x => x.1 == r)).map (·.2)

end TV.Routing
