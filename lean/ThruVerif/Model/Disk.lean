/-!
Receiver disk model for C05: any number of chunk writers (`beginWrite` → `endWrite` → `mark`, the order
`writeAtWithTimeout` … `markChunkComplete` has in the data-stream reader), one flusher
(`lock; marshal; write <path>.tmp; rename; unlock` as separate steps under the sidecar mutex), process
kill at any point (`crash` keeps the disk, drops memory) and restart (`restartLoad` = LoadSidecar).
Kill semantics: completed `write`/`rename` syscalls persist (process kill, not power loss).
Writers only ever write CRC-checked source bytes, so rewriting a good chunk keeps it good.
-/
namespace TV.Disk

inductive Chunk | absent | torn | good
  deriving DecidableEq, Repr

abbrev BM := Nat → Bool

inductive FlushPc
  | idle
  | snapped (s : BM)      -- holds the sidecar mutex, has marshalled s
  | wroteTmp (s : BM)     -- temp file written completely
  | renamed               -- rename done, still holding the mutex

structure State where
  data  : Nat → Chunk
  mem   : BM                 -- in-memory bitmap
  tmp   : Option BM          -- <path>.tmp when completely written
  tmpTorn : Bool             -- a partially written temp file exists
  disk  : Option BM          -- <path>
  fl    : FlushPc
  wr    : Nat → Nat          -- number of writers currently inside WriteAt for chunk i
  pend  : Nat → Nat          -- writers whose WriteAt returned but that have not yet marked

def upd {α} (f : Nat → α) (i : Nat) (v : α) : Nat → α := fun j => if j = i then v else f j

inductive Step
  | beginWrite (i : Nat)     -- a data reader enters WriteAt for chunk i (payload = source, CRC checked)
  | endWrite (i : Nat)       -- WriteAt returned
  | mark (i : Nat)           -- markChunkComplete; needs the sidecar mutex
  | flushBegin               -- Flush: lock, marshal
  | flushTmpPartial          -- part of the temp file hit the disk
  | flushTmpDone
  | flushRename
  | flushEnd
  | crash                    -- SIGKILL; then restart loads the sidecar
  | restartLoad

def lockFree (s : State) : Prop := s.fl = .idle

def step (s : State) : Step → Option State
  | .beginWrite i =>
    some { s with wr := upd s.wr i (s.wr i + 1),
                  data := if s.data i = .good then s.data else upd s.data i .torn }
  | .endWrite i =>
    if s.wr i = 0 then none else
    some { s with wr := upd s.wr i (s.wr i - 1), pend := upd s.pend i (s.pend i + 1),
                  data := upd s.data i .good }
  | .mark i =>
    match s.fl with
    | .idle => if s.pend i = 0 then none else
        some { s with pend := upd s.pend i (s.pend i - 1), mem := upd s.mem i true }
    | _ => none
  | .flushBegin =>
    match s.fl with
    | .idle => some { s with fl := .snapped s.mem }
    | _ => none
  | .flushTmpPartial =>
    match s.fl with
    | .snapped _ => some { s with tmp := none, tmpTorn := true }
    | _ => none
  | .flushTmpDone =>
    match s.fl with
    | .snapped b => some { s with tmp := some b, tmpTorn := false, fl := .wroteTmp b }
    | _ => none
  | .flushRename =>
    match s.fl with
    | .wroteTmp b => some { s with disk := some b, tmp := none, fl := .renamed }
    | _ => none
  | .flushEnd =>
    match s.fl with
    | .renamed => some { s with fl := .idle }
    | _ => none
  | .crash =>
    some { s with mem := fun _ => false, fl := .idle, wr := fun _ => 0, pend := fun _ => 0 }
  | .restartLoad =>
    match s.disk with
    | some b => some { s with mem := b }
    | none => some s

def init : State :=
  { data := fun _ => .absent, mem := fun _ => false, tmp := none, tmpTorn := false, disk := none,
    fl := .idle, wr := fun _ => 0, pend := fun _ => 0 }

/-- Every state reachable from `init` by any interleaving of writers, flusher, crashes and restarts. -/
inductive Reachable : State → Prop
  | init : Reachable init
  | step {s s' a} : Reachable s → step s a = some s' → Reachable s'

end TV.Disk
