/-!
Return decisions of the two endpoints (safety part), as they are after the fixes:

* receiver main loop (`RecvManifestMultiStream`): one `select` over context cancellation, the done
  signal, a control-reader error, a data-reader result, and a control record. `completed` counts files
  finalised with ok = true only.
* sender (`SendManifestMultiStream`): after all workers returned.
-/
namespace TV.Decision

inductive RecvEv
  | ctxDone
  | doneSignal
  | controlErr (isEOF graceful : Bool)       -- control reader failed: plain EOF / "Application error 0x0 (remote)" / other
  | dataErr (isNil graceful : Bool)          -- a data reader ended (nil) or failed
  | endRecord
  | handled (ok : Bool)                      -- another control record, handler returned ok / error
  deriving DecidableEq, Repr

inductive Ret | ok | err | continue_
  deriving DecidableEq, Repr

/-- one turn of the receiver's main loop -/
def recvTurn (completed total : Nat) (endReceived : Bool) : RecvEv → Ret
  | .ctxDone => .err
  | .doneSignal => if endReceived ∧ completed ≥ total then .ok else .continue_
  | .controlErr isEOF graceful =>
    if !isEOF then (if graceful ∧ completed ≥ total then .ok else .err)
    else if completed ≥ total then .ok else .err
  | .dataErr isNil graceful =>
    if isNil then .continue_ else if graceful ∧ completed ≥ total then .ok else .err
  | .endRecord => if completed ≥ total then .ok else .err
  | .handled ok => if ok then .continue_ else .err

/-- the sender's return value once its workers are done -/
def sendReturn (transferErr : Bool) (confirmed total : Nat) (endWritten : Bool) : Ret :=
  if transferErr then .err
  else if confirmed < total then .err
  else if endWritten then .ok else .err

end TV.Decision
