/-!
`computeParallelBudget` (internal/app/transfer_concurrency.go) with `HeuristicParams` and the clamp of
`NormalizeParams` (internal/transfer/params.go), over `Nat` (requested ≤ 0 is modelled as 0).
-/
namespace TV.Budget

def heuristic (files : Nat) : Nat := if files < 1 then 1 else if files > 6 then 6 else files

def atLeastOne (x : Nat) : Nat := if x < 1 then 1 else x
def raiseToConns (c t : Nat) : Nat := if c > 1 ∧ t < c then c else t
def capToFiles (striping : Bool) (files t : Nat) : Nat := if !striping ∧ files > 0 ∧ t > files then files else t
def capPerConn (striping : Bool) (files c t : Nat) : Nat :=
  if c > 1 ∧ t > 1 then
    let mx := if c * 4 < 2 then 2 else c * 4
    capToFiles striping files (if t > mx then mx else t)
  else t

def computeBudget (files req conns : Nat) (striping : Bool) : Nat × Nat :=
  let c := atLeastOne conns
  let t := atLeastOne (if req = 0 then heuristic files else req)
  let t := capPerConn striping files c (capToFiles striping files (raiseToConns c t))
  (t, atLeastOne ((t + c - 1) / c))

/-- `NormalizeParams`: ParallelFiles clamped to 1..8 -/
def normalizeStreams (t : Nat) : Nat := if t < 1 then 1 else if t > 8 then 8 else t

theorem normalize_bounds (t : Nat) : 1 ≤ normalizeStreams t ∧ normalizeStreams t ≤ 8 := by
  unfold normalizeStreams; split <;> (try split) <;> omega

theorem raise_ge (c t : Nat) (h : c > 1) : c ≤ raiseToConns c t := by
  unfold raiseToConns; split <;> omega

theorem capToFiles_striping (files t : Nat) : capToFiles true files t = t := by simp [capToFiles]

theorem capPerConn_ge (files c t : Nat) (hc : c > 1) (ht : c ≤ t) : c ≤ capPerConn true files c t := by
  unfold capPerConn
  split
  · simp only [capToFiles_striping]
    split <;> split <;> omega
  · exact ht

theorem budget_bounds (files req conns : Nat) :
    1 ≤ normalizeStreams (computeBudget files req conns (decide (conns > 1))).1 ∧
    normalizeStreams (computeBudget files req conns (decide (conns > 1))).1 ≤ 8 ∧
    normalizeStreams (computeBudget files req conns (decide (conns > 1))).1 < 2 ^ 16 ∧
    (conns > 1 → conns ≤ (computeBudget files req conns (decide (conns > 1))).1) := by
  have hb := normalize_bounds (computeBudget files req conns (decide (conns > 1))).1
  refine ⟨hb.1, hb.2, by omega, ?_⟩
  intro h1
  have hc : atLeastOne conns = conns := by unfold atLeastOne; split <;> omega
  simp only [computeBudget, hc, h1, decide_true, capToFiles_striping]
  exact capPerConn_ge files conns _ h1 (raise_ge conns _ h1)

end TV.Budget
