/-!
The wake-up protocol between the receiver's data readers and its control loop (`fileWaitRegistry` in
`internal/transfer/multistream.go`) for one file key.

A data reader that reads a chunk frame of a file looks the file's state up under `stateMu`; finding none it
registers a channel in `fileReady.wait` (under the registry's own lock), evaluates the readiness predicate (a second look-up under
`stateMu`) and only then blocks on its channel. The control loop's `handleFileBegin` stores the state under `stateMu` and then
calls `fileReady.signal`, which takes the registered channels out (under the registry's lock) and closes them.

Each step below is one critical section of the code (`recheck := false` is the code before fix 39667d3: no predicate).
-/
namespace TV.FileWait

/-- program counter of a data reader -/
inductive RPc
  | start        -- frame header read, before the look-up
  | sawNone      -- look-up found no state (hook point `recv.reader.before_wait` is here)
  | registered   -- channel appended to `waiters[id]`, before the predicate
  | blocked      -- in the `select` on its channel
  | go           -- proceeds with the file state
  deriving DecidableEq, Repr

/-- program counter of `handleFileBegin` for this key -/
inductive HPc
  | before | stored | signalled
  deriving DecidableEq, Repr

structure St where
  pcs : List RPc          -- one per reader
  hpc : HPc
  waiters : List Nat      -- readers whose channel is in `waiters[id]`
  closed : List Nat       -- readers whose channel has been closed
  deriving DecidableEq, Repr

inductive Step
  | lookup (i : Nat)
  | register (i : Nat)
  | recheck (i : Nat)
  | wake (i : Nat)
  | store
  | signal
  deriving DecidableEq, Repr

def stateKnown (s : St) : Bool := s.hpc != .before

def step (recheck : Bool) (s : St) : Step → Option St
  | .lookup i =>
    if s.pcs[i]? = some .start then some { s with pcs := s.pcs.set i (if stateKnown s then .go else .sawNone) } else none
  | .register i =>
    if s.pcs[i]? = some .sawNone then
      some { s with pcs := s.pcs.set i (if recheck then .registered else .blocked), waiters := i :: s.waiters }
    else none
  | .recheck i =>
    if s.pcs[i]? = some .registered then some { s with pcs := s.pcs.set i (if stateKnown s then .go else .blocked) } else none
  | .wake i =>
    if s.pcs[i]? = some .blocked ∧ i ∈ s.closed then some { s with pcs := s.pcs.set i .go } else none
  | .store => if s.hpc = .before then some { s with hpc := .stored } else none
  | .signal => if s.hpc = .stored then some { s with hpc := .signalled, closed := s.waiters ++ s.closed, waiters := [] } else none

def init (n : Nat) : St := { pcs := List.replicate n .start, hpc := .before, waiters := [], closed := [] }

def run (recheck : Bool) (s : St) : List Step → Option St
  | [] => some s
  | a :: as => match step recheck s a with
    | some s' => run recheck s' as
    | none => none

/-- every reader proceeds and FileBegin is handled -/
def done (s : St) : Prop := s.hpc = .signalled ∧ ∀ p ∈ s.pcs, p = .go

instance (s : St) : Decidable (done s) := by unfold done; infer_instance

def rank : RPc → Nat
  | .start => 4 | .sawNone => 3 | .registered => 2 | .blocked => 1 | .go => 0

def hrank : HPc → Nat
  | .before => 2 | .stored => 1 | .signalled => 0

def measure (s : St) : Nat := (s.pcs.map rank).sum + hrank s.hpc

end TV.FileWait

/-!
The three "mailbox" registries of the transfer (`fileDoneRegistry`, `resumeInfoRegistry`, `streamRegistry`): `wait` looks for a
pending message and otherwise registers its channel *in one critical section*; `deliver` hands the message to a registered waiter
and otherwise leaves it pending, in one critical section too. Used with one waiter and one delivery per id.
-/
namespace TV.Mailbox

structure St where
  pending : Option Nat       -- a message left for whoever waits next
  waiting : Bool             -- the waiter's channel is registered
  got : Option Nat           -- what the waiter received
  deriving DecidableEq, Repr

inductive Step
  | wait
  | deliver (m : Nat)
  deriving DecidableEq, Repr

def step (s : St) : Step → St
  | .wait =>
    match s.pending with
    | some m => { s with pending := none, got := some m }
    | none => { s with waiting := true }
  | .deliver m =>
    if s.waiting then { s with waiting := false, got := some m } else { s with pending := some m }

def init : St := { pending := none, waiting := false, got := none }

def run (s : St) : List Step → St
  | [] => s
  | a :: as => run (step s a) as

end TV.Mailbox
