/-!
Liveness abstraction of the multi-stream transfer for a whole manifest: `k` files over `n` data streams of one
connection (`Proto/ProtoLFix` is the one-file instance this generalises). Payloads and chunk indices are erased to
counters.

* sender: per file `toSend` chunks still to hand out, `FileEnd` once nothing is left to hand out, `End` after every
  `FileDone` arrived; afterwards its workers close their streams (every stream becomes visible);
* network: `buf w f` frames of file `f` in flight on stream `w` (the order inside a stream is irrelevant for liveness:
  a non-empty stream always has a readable head frame);
* QUIC visibility: a stream can be accepted only after a frame was written on it or on a higher-numbered one;
* receiver: accepts visible streams one by one while it handles records and frames of streams it already accepted
  (lazy accept), finalises a file when its last frame and its `FileEnd` are in, answers `FileDone`, and returns on `End`.

Timers and polling are not steps.
-/
namespace TV.ProtoLM

def upd {α : Type} (f : Nat → α) (i : Nat) (v : α) : Nat → α := fun j => if j = i then v else f j

def sumN : Nat → (Nat → Nat) → Nat
  | 0, _ => 0
  | k + 1, f => sumN k f + f k

def b2n (b : Bool) : Nat := if b then 1 else 0

structure St where
  k : Nat
  n : Nat
  toSend : Nat → Nat
  remaining : Nat → Nat
  buf : Nat → Nat → Nat          -- stream -> file -> frames in flight
  visible : Nat
  accepted : Nat
  endSent : Nat → Bool
  endRecv : Nat → Bool
  doneSent : Nat → Bool
  doneRecv : Nat → Bool
  endAllSent : Bool
  endAllRecv : Bool

inductive Step
  | dispatch (f w : Nat)
  | sendEnd (f : Nat)
  | accept
  | readFrame (w f : Nat)
  | recvEnd (f : Nat)
  | recvDone (f : Nat)
  | sendEndAll
  | recvEndAll

/-- `finalizeFile` when the last frame and `FileEnd` are both in -/
def fin (s : St) (f : Nat) : St :=
  if s.remaining f = 0 ∧ s.endRecv f = true then { s with doneSent := upd s.doneSent f true } else s

def allB (k : Nat) (p : Nat → Bool) : Prop := ∀ f, f < k → p f = true

instance (k : Nat) (p : Nat → Bool) : Decidable (allB k p) := by
  unfold allB
  exact Nat.decidableBallLT k (fun f _ => p f = true)

def step (s : St) : Step → Option St
  | .dispatch f w =>
    if f < s.k ∧ w < s.n ∧ s.toSend f > 0 then
      some { s with toSend := upd s.toSend f (s.toSend f - 1), buf := upd s.buf w (upd (s.buf w) f (s.buf w f + 1)),
                    visible := max s.visible (w + 1) }
    else none
  | .sendEnd f =>
    if f < s.k ∧ s.toSend f = 0 ∧ s.endSent f = false then some { s with endSent := upd s.endSent f true } else none
  | .accept => if s.accepted < s.visible then some { s with accepted := s.accepted + 1 } else none
  | .readFrame w f =>
    if f < s.k ∧ w < s.accepted ∧ s.buf w f > 0 then
      some (fin { s with buf := upd s.buf w (upd (s.buf w) f (s.buf w f - 1)), remaining := upd s.remaining f (s.remaining f - 1) } f)
    else none
  | .recvEnd f =>
    if f < s.k ∧ s.endSent f = true ∧ s.endRecv f = false then some (fin { s with endRecv := upd s.endRecv f true } f) else none
  | .recvDone f =>
    if f < s.k ∧ s.doneSent f = true ∧ s.doneRecv f = false then some { s with doneRecv := upd s.doneRecv f true } else none
  | .sendEndAll =>
    if allB s.k s.doneRecv ∧ s.endAllSent = false then some { s with endAllSent := true, visible := s.n } else none
  | .recvEndAll =>
    if s.endAllSent = true ∧ s.endAllRecv = false then some { s with endAllRecv := true } else none

/-- `chunks f` chunks per file; `n` streams -/
def init (k n : Nat) (chunks : Nat → Nat) : St :=
  { k, n, toSend := chunks, remaining := chunks, buf := fun _ _ => 0, visible := 0, accepted := 0,
    endSent := fun _ => false, endRecv := fun _ => false, doneSent := fun _ => false, doneRecv := fun _ => false,
    endAllSent := false, endAllRecv := false }

def final (s : St) : Prop := s.endAllRecv = true

inductive Reachable (k n : Nat) (chunks : Nat → Nat) : St → Prop
  | init : Reachable k n chunks (init k n chunks)
  | step {s s' : St} (a : Step) : Reachable k n chunks s → step s a = some s' → Reachable k n chunks s'

/-- frames of file `f` in flight on all streams -/
def inflight (s : St) (f : Nat) : Nat := sumN s.n (fun w => s.buf w f)

/-- frames in flight on stream `w` -/
def onStream (s : St) (w : Nat) : Nat := sumN s.k (fun f => s.buf w f)

def measure (s : St) : Nat :=
  sumN s.k (fun f => 2 * s.toSend f + b2n (!s.endSent f) + b2n (!s.endRecv f) + b2n (!s.doneRecv f)) +
  sumN s.k (fun f => inflight s f) + (s.n - s.accepted) + b2n (!s.endAllSent) + b2n (!s.endAllRecv)

end TV.ProtoLM
