/-!
The part of Go's `net/url` that the client/server agreement of C16 goes through, over bytes:

* `escape` / `unescape` in the two modes used (`url.QueryEscape` and the user-info escaping of `url.UserPassword(..).String()`),
* the query string `buildWebSocketURL` assembles and the server's `r.URL.Query().Get(..)` (`url.ParseQuery`: split at `&`,
  pairs with `;` dropped, cut at the first `=`, both sides unescaped, pairs that fail to unescape dropped),
* `injectTurnCredentials` (server: scheme normalisation, `u.User = UserPassword(user, pass)`, `u.String()`) and the
  client's `parseTurnServer` (`url.Parse`: scheme, fragment, query, authority up to `/`, user-info up to the *last* `@`,
  user/password cut at the *first* `:`, both unescaped),
* the `/session` response and `clienthttp.CreateSession`'s decoding of it.
-/
namespace TV.Url

abbrev Bytes := List UInt8

def isAlnum (c : UInt8) : Bool :=
  (0x30 ≤ c && c ≤ 0x39) || (0x41 ≤ c && c ≤ 0x5a) || (0x61 ≤ c && c ≤ 0x7a)

/-- `-` `_` `.` `~` and alphanumerics -/
def isUnreserved (c : UInt8) : Bool :=
  isAlnum c || c == 0x2d || c == 0x5f || c == 0x2e || c == 0x7e

inductive Mode
  | query          -- encodeQueryComponent
  | userPassword   -- encodeUserPassword
  deriving DecidableEq, Repr

/-- `shouldEscape(c, mode)` of net/url for the two modes -/
def shouldEscape (m : Mode) (c : UInt8) : Bool :=
  if isUnreserved c then false
  else match m with
    | .query => true
    | .userPassword =>
      -- of the reserved `$&+,/:;=?@` only `@ / ? :` are escaped
      !(c == 0x24 || c == 0x26 || c == 0x2b || c == 0x2c || c == 0x3b || c == 0x3d)

def hexUpper (n : UInt8) : UInt8 := if n < 10 then 0x30 + n else 0x41 + (n - 10)

def unhex (c : UInt8) : Option UInt8 :=
  if 0x30 ≤ c && c ≤ 0x39 then some (c - 0x30)
  else if 0x61 ≤ c && c ≤ 0x66 then some (c - 0x61 + 10)
  else if 0x41 ≤ c && c ≤ 0x46 then some (c - 0x41 + 10)
  else none

def escChar (m : Mode) (c : UInt8) : Bytes :=
  if c == 0x20 && m == .query then [0x2b]
  else if shouldEscape m c then [0x25, hexUpper (c >>> 4), hexUpper (c &&& 15)]
  else [c]

def escape (m : Mode) : Bytes → Bytes
  | [] => []
  | c :: cs => escChar m c ++ escape m cs

def unescape (m : Mode) : Bytes → Option Bytes
  | [] => some []
  | c :: cs =>
    if c == 0x25 then
      match cs with
      | a :: b :: rest =>
        match unhex a, unhex b, unescape m rest with
        | some x, some y, some r => some ((x <<< 4 ||| y) :: r)
        | _, _, _ => none
      | _ => none
    else
      match unescape m cs with
      | some r => some ((if c == 0x2b && m == .query then 0x20 else c) :: r)
      | none => none

/-! ### cutting -/

/-- before the first byte satisfying `p`, and what follows it (if there is one) -/
def cutFirst (p : UInt8 → Bool) : Bytes → Bytes × Option Bytes
  | [] => ([], none)
  | c :: cs => if p c then ([], some cs) else
    let r := cutFirst p cs
    (c :: r.1, r.2)

/-- what precedes the last byte satisfying `p` (if there is one), and what follows it -/
def cutLast (p : UInt8 → Bool) (l : Bytes) : Option Bytes × Bytes :=
  match cutFirst p l.reverse with
  | (x, some y) => (some y.reverse, x.reverse)
  | (x, none) => (none, x.reverse)

def splitOn (sep : UInt8) : Bytes → List Bytes
  | [] => [[]]
  | c :: cs =>
    match splitOn sep cs with
    | [] => [[c]]      -- unreachable
    | p :: ps => if c == sep then [] :: p :: ps else (c :: p) :: ps

/-! ### query strings -/

def parsePair (p : Bytes) : Option (Bytes × Bytes) :=
  if p.isEmpty then none
  else if p.contains 0x3b then none
  else
    let kv := cutFirst (· == 0x3d) p
    match unescape .query kv.1, unescape .query (kv.2.getD []) with
    | some k, some v => some (k, v)
    | _, _ => none

/-- `url.ParseQuery(q)` followed by `.Get(key)` -/
def queryGet (q key : Bytes) : Bytes :=
  match ((splitOn 0x26 q).filterMap parsePair).find? (fun kv => kv.1 == key) with
  | some kv => kv.2
  | none => []

def kJoinCode : Bytes := [0x6a, 0x6f, 0x69, 0x6e, 0x5f, 0x63, 0x6f, 0x64, 0x65]   -- "join_code"
def kPeerID : Bytes := [0x70, 0x65, 0x65, 0x72, 0x5f, 0x69, 0x64]                 -- "peer_id"
def kRole : Bytes := [0x72, 0x6f, 0x6c, 0x65]                                     -- "role"
def kMaxReceivers : Bytes := [0x6d, 0x61, 0x78, 0x5f, 0x72, 0x65, 0x63, 0x65, 0x69, 0x76, 0x65, 0x72, 0x73]  -- "max_receivers"

def digits (n : Nat) : Bytes := (Nat.toDigits 10 n).map fun ch => UInt8.ofNat ch.toNat

/-- the query `buildWebSocketURL` puts after `/ws?` -/
def wsQuery (code peer role : Bytes) (maxReceivers : Nat) : Bytes :=
  kJoinCode ++ [0x3d] ++ escape .query code ++ [0x26] ++ kPeerID ++ [0x3d] ++ escape .query peer ++ [0x26] ++
    kRole ++ [0x3d] ++ escape .query role ++
    (if maxReceivers > 0 then [0x26] ++ kMaxReceivers ++ [0x3d] ++ digits maxReceivers else [])

/-- scheme of the WebSocket URL: first "http" replaced by "ws"; "https" gives "wss" -/
def wsScheme (s : Bytes) : Bytes :=
  let http : Bytes := [0x68, 0x74, 0x74, 0x70]
  if s == http then [0x77, 0x73] else if s == http ++ [0x73] then [0x77, 0x73, 0x73] else s

/-! ### TURN URLs -/

structure TurnSpec where
  tls : Bool
  hostPort : Bytes      -- "host:port"
  query : Bytes         -- raw query ("" = none)
  deriving DecidableEq, Repr

def sTurn : Bytes := [0x74, 0x75, 0x72, 0x6e]          -- "turn"
def sTurns : Bytes := [0x74, 0x75, 0x72, 0x6e, 0x73]   -- "turns"
def sep3 : Bytes := [0x3a, 0x2f, 0x2f]                 -- "://"

def scheme (t : TurnSpec) : Bytes := if t.tls then sTurns else sTurn

/-- what `injectTurnCredentials` returns for a server entry that denotes `t` (any of the accepted spellings
    normalises to `scheme://host:port?query` before the credentials are set) -/
def inject (t : TurnSpec) (user pass : Bytes) : Bytes :=
  scheme t ++ sep3 ++ escape .userPassword user ++ [0x3a] ++ escape .userPassword pass ++ [0x40] ++ t.hostPort ++
    (if t.query.isEmpty then [] else 0x3f :: t.query)

structure TurnParsed where
  scheme : Bytes
  user : Bytes
  pass : Bytes
  hostPort : Bytes
  query : Bytes
  deriving DecidableEq, Repr

/-- `url.Parse` as far as `parseTurnServer` looks at the result (the URL already starts with `turn://` or `turns://`) -/
def parseTurn (raw : Bytes) : Option TurnParsed :=
  let s := cutFirst (· == 0x3a) raw                       -- getScheme
  match s.2 with
  | none => none
  | some rest =>
    match rest with
    | 0x2f :: 0x2f :: rest =>
      let noFrag := (cutFirst (· == 0x23) rest).1          -- '#'
      let q := cutFirst (· == 0x3f) noFrag                 -- '?'
      let authority := (cutFirst (· == 0x2f) q.1).1        -- up to '/'
      let ui := cutLast (· == 0x40) authority              -- last '@'
      match ui.1 with
      | none => some ⟨s.1, [], [], ui.2, q.2.getD []⟩
      | some info =>
        let up := cutFirst (· == 0x3a) info                -- first ':'
        match unescape .userPassword up.1, unescape .userPassword (up.2.getD []) with
        | some u, some p => some ⟨s.1, u, p, ui.2, q.2.getD []⟩
        | _, _ => none
    | _ => none

/-! ### POST /session -/

structure SessionResp where
  sessionID : Bytes
  joinCode : Bytes
  expiresAt : Option Nat      -- `expires_at` present (RFC 3339 of this second) iff the session has an expiry
  deriving DecidableEq, Repr

/-- the handler: `expires_at` only `if !sess.ExpiresAt.IsZero()`, i.e. iff `--session-timeout` > 0 -/
def sessionResponse (id code : Bytes) (now ttl : Nat) : SessionResp :=
  ⟨id, code, if ttl > 0 then some (now + ttl) else none⟩

/-- `CreateSession`: an absent / empty `expires_at` means "no expiry" (zero time) -/
def clientDecode (r : SessionResp) : Option (Bytes × Bytes × Option Nat) :=
  some (r.sessionID, r.joinCode, r.expiresAt)

end TV.Url
