/-!
Connection racing (`internal/ice/ice.go` `ProbeAndDial`/`probeWithTransport` on the dialing side;
`internal/app/snapshot_receiver.go` `acceptAuthenticated` + the `select` of `runTransfer` on the accepting side;
transport authentication as the step that ties the two ends together).

Dialing side, per candidate (after de-duplication) one goroutine: `tr.Dial` (→ established | failed | cancelled), then
the claim `claimed.CompareAndSwap(false, true)`: the first claimant puts its connection into the result channel
(`handed`), every later one closes its connection (`closedLoser`). The caller takes the channel's content, returns it
and cancels the context (or its own context is cancelled from outside: `callerCancel`, `mainAbort`); dials still in flight observe the cancellation (a dial cancelled at the very moment its
handshake completes drops the connection *without* telling the peer).

Accepting side: the listener completes handshakes in its own order (`srvDone`, any order, also for connections the
dialer cancels or closes afterwards); `acceptAuthenticated` accepts every completed connection (`accept`) and runs
transport authentication on each concurrently: it succeeds exactly on the connection on which the dialing side
authenticates — the one `ProbeAndDial` returned (`authOk`) — and fails on connections the dialer closed or dropped
(`authFail`; at once for a closed one, after the timeout for a dropped one). Authenticated connections are handed on in
the order they passed; the first is the transfer connection (`pickPrimary`).
-/
namespace TV.Race

inductive Task | probing | failed | cancelled | established | handed | closedLoser
  deriving DecidableEq, Repr

structure St where
  tasks : List Task
  claimed : Bool
  winner : Option Nat          -- ghost: who claimed
  slot : Option Nat            -- the one-element result channel
  returned : Option Nat        -- what ProbeAndDial gave its caller
  ctxCancelled : Bool
  queue : List Nat             -- listener: handshakes completed, not yet accepted (its own order)
  seen : List Nat              -- ghost: everything the listener ever completed
  pending : List Nat           -- accepted, authentication running
  authed : List Nat            -- passed authentication, in that order
  discarded : List Nat
  primary : Option Nat         -- the receiver's transfer connection
  gaveUp : Bool                -- ProbeAndDial returned "all probes failed"
  aborted : Bool               -- ProbeAndDial returned the caller's cancellation
  deriving DecidableEq, Repr

def init (k : Nat) : St :=
  { tasks := List.replicate k .probing, claimed := false, winner := none, slot := none, returned := none,
    ctxCancelled := false, queue := [], seen := [], pending := [], authed := [], discarded := [], primary := none, gaveUp := false,
    aborted := false }

inductive Step
  | clientDone (i : Nat)       -- `tr.Dial` returns a connection
  | clientFail (i : Nat)       -- `tr.Dial` fails (unreachable, invalid address, timeout)
  | cancelSeen (i : Nat)       -- a dial in flight observes the cancelled context
  | claim (i : Nat)            -- `claimed.CompareAndSwap(false, true)` and what follows
  | mainRecv                   -- the caller receives from the result channel, returns, the deferred cancel fires
  | mainGiveUp                 -- every dial goroutine has finished and the channel is empty: "all probes failed"
  | callerCancel               -- the caller's context is cancelled from outside (it may happen at any moment)
  | mainAbort                  -- the caller's `select` takes `<-ctx.Done()`: take the claim, or close the connection that holds it
  | srvDone (i : Nat)          -- the listener completes the handshake of candidate i's connection
  | accept                     -- `transport.Accept` returns the next completed connection; its authentication starts
  | authOk (i : Nat)
  | authFail (i : Nat)
  | pickPrimary
  deriving DecidableEq, Repr

def taskL (l : List Task) (i : Nat) : Task := l[i]?.getD .failed

@[reducible] def task (s : St) (i : Nat) : Task := taskL s.tasks i

def step (s : St) : Step → Option St
  | .clientDone i => if task s i = .probing then some { s with tasks := s.tasks.set i .established } else none
  | .clientFail i => if task s i = .probing then some { s with tasks := s.tasks.set i .failed } else none
  | .cancelSeen i =>
    if s.ctxCancelled ∧ task s i = .probing then some { s with tasks := s.tasks.set i .cancelled } else none
  | .claim i =>
    if task s i = .established then
      if s.claimed then some { s with tasks := s.tasks.set i .closedLoser }
      else some { s with tasks := s.tasks.set i .handed, claimed := true, winner := some i, slot := some i }
    else none
  | .mainRecv =>
    match s.slot, s.returned with
    | some i, none => some { s with slot := none, returned := some i, ctxCancelled := true }
    | _, _ => none
  | .mainGiveUp =>
    -- `allDone` is closed only after every counted dial goroutine has returned (the wait starts after all of them
    -- are counted), and a claimed connection in the channel is taken first
    if s.returned = none ∧ s.gaveUp = false ∧ s.aborted = false ∧ s.slot = none ∧
        s.tasks.all (fun t => t == .failed || t == .cancelled || t == .closedLoser) then
      some { s with gaveUp := true, ctxCancelled := true }
    else none
  | .callerCancel => some { s with ctxCancelled := true }
  | .mainAbort =>
    -- nobody will take a winner any more. `claimed.CompareAndSwap(false, true)` by the caller: a dial that completes from now on
    -- finds the claim taken and closes itself; if a dial holds the claim its connection is in the channel: taken out and closed
    if s.ctxCancelled = true ∧ s.returned = none ∧ s.gaveUp = false ∧ s.aborted = false then
      if s.claimed = false then some { s with claimed := true, aborted := true }
      else match s.slot with
        | some i => some { s with slot := none, winner := none, tasks := s.tasks.set i .closedLoser, aborted := true }
        | none => none
    else none
  | .srvDone i =>
    -- (over-approximation: also for a connection whose dial is cancelled or closed afterwards, or was already)
    if i < s.tasks.length ∧ task s i ≠ .failed ∧ i ∉ s.seen then
      some { s with queue := s.queue ++ [i], seen := s.seen ++ [i] }
    else none
  | .accept =>
    match s.queue with
    | i :: rest => some { s with queue := rest, pending := s.pending ++ [i] }
    | [] => none
  | .authOk i =>
    -- both ends authenticate on the same connection: the dialing side does so on the one it was given
    if i ∈ s.pending ∧ s.returned = some i then
      some { s with pending := s.pending.erase i, authed := s.authed ++ [i] }
    else none
  | .authFail i =>
    if i ∈ s.pending ∧ (task s i = .closedLoser ∨ task s i = .cancelled) then
      some { s with pending := s.pending.erase i, discarded := s.discarded ++ [i] }
    else none
  | .pickPrimary =>
    match s.authed, s.primary with
    | i :: _, none => some { s with primary := some i }
    | _, _ => none

def run (s : St) : List Step → Option St
  | [] => some s
  | a :: as => match step s a with | some s' => run s' as | none => none

inductive Reachable (k : Nat) : St → Prop
  | init : Reachable k (init k)
  | step {s s' : St} (a : Step) : Reachable k s → step s a = some s' → Reachable k s'

/-- `probeWithTransport` as it was: on cancellation the caller only looked into the channel without taking the claim -/
def stepOld (s : St) : Step → Option St
  | .mainAbort =>
    if s.ctxCancelled = true ∧ s.returned = none ∧ s.gaveUp = false ∧ s.aborted = false then
      match s.slot with
      | some i => some { s with slot := none, winner := none, tasks := s.tasks.set i .closedLoser, aborted := true }
      | none => some { s with aborted := true }
    else none
  | a => step s a

def runOld (s : St) : List Step → Option St
  | [] => some s
  | a :: as => match stepOld s a with | some s' => runOld s' as | none => none

/-- connection of candidate `i` is open on the dialing side -/
def isOpen (s : St) (i : Nat) : Prop := task s i = .established ∨ task s i = .handed

/-- no dial goroutine has anything left to do -/
def quiescent (s : St) : Prop := ∀ i, task s i ≠ .probing ∧ task s i ≠ .established

end TV.Race
