/-!
Sender per-file dispatch machine: a line-by-line transcription of `sendFileState.nextChunkToSend`,
`markChunkDone`, `trySendEnd` (internal/transfer/multistream.go) plus the effects `applyResumeInfo` and
its verification goroutine have on the state (`applyPlan`, `verifyBegin`, `verdict`).
Each `Op` is one mutex-protected region of the real code, so any interleaving of any number of workers
is an `Op` list.
-/
namespace TV.SendFile

structure Plan where
  bitmap : List Bool
  forceFrom : Nat
  deriving DecidableEq, Repr

structure St where
  next : Nat
  total : Nat
  inFlight : Nat
  scheduleDone : Bool
  endSent : Bool
  verifyPending : Bool
  resendPending : Bool
  resendChunk : Nat
  plan : Option Plan
  deriving DecidableEq, Repr

def init (total : Nat) : St :=
  { next := 0, total := total, inFlight := 0, scheduleDone := false, endSent := false,
    verifyPending := false, resendPending := false, resendChunk := 0, plan := none }

/-- `s.plan != nil && s.plan.bitmap.Get(idx) && idx < s.plan.forceSendFrom` -/
def skip (p : Option Plan) (i : Nat) : Bool :=
  match p with
  | none => false
  | some p => p.bitmap[i]?.getD false && decide (i < p.forceFrom)

/-- the `for s.nextChunk < s.totalChunks` loop of nextChunkToSend, by fuel = total - next -/
def scan (p : Option Plan) (total : Nat) : Nat → Nat → Option Nat × Nat
  | 0, next => (none, next)
  | fuel+1, next =>
    if next < total then
      if skip p next then scan p total fuel (next+1) else (some next, next+1)
    else (none, next)

def take (s : St) : St × Option Nat :=
  if s.resendPending then
    ({ s with resendPending := false, inFlight := s.inFlight + 1 }, some s.resendChunk)
  else if s.scheduleDone then (s, none)
  else
    match scan s.plan s.total (s.total - s.next) s.next with
    | (some i, n) => ({ s with next := n, inFlight := s.inFlight + 1, scheduleDone := decide (n ≥ s.total) }, some i)
    | (none, n) => ({ s with next := n, scheduleDone := true }, none)

def canEnd (s : St) : Bool :=
  !s.verifyPending && !s.resendPending && s.scheduleDone && s.inFlight == 0 && !s.endSent

def finish (s : St) : St × Bool :=
  let s := { s with inFlight := s.inFlight - 1 }
  if canEnd s then ({ s with endSent := true }, true) else (s, false)

def tryEnd (s : St) : St × Bool :=
  if canEnd s then ({ s with endSent := true }, true) else (s, false)

inductive Op
  | take | finish | tryEnd
  | applyPlan (p : Plan)                    -- `state.plan = plan`
  | verifyBegin                             -- `state.beginVerify()`: declines once the end record has gone out
  | verdict (mismatch : Bool) (c : Nat)     -- verification goroutine's locked region (the goroutine exists only if `beginVerify` accepted)
  deriving DecidableEq, Repr

inductive Out | chunk (i : Nat) | none | fileEnd | nothing | declined
  deriving DecidableEq, Repr

def step (s : St) : Op → St × Out
  | .take => let r := take s; (r.1, match r.2 with | some i => .chunk i | none => .none)
  | .finish => let r := finish s; (r.1, if r.2 then .fileEnd else .nothing)
  | .tryEnd => let r := tryEnd s; (r.1, if r.2 then .fileEnd else .nothing)
  | .applyPlan p => ({ s with plan := some p }, .nothing)
  | .verifyBegin => if s.endSent then (s, .declined) else ({ s with verifyPending := true }, .nothing)
  | .verdict m c =>
    if s.verifyPending then
      (if m then { s with resendChunk := c, resendPending := true, verifyPending := false }
       else { s with verifyPending := false }, .nothing)
    else (s, .declined)

/-- the machine as it was: verification was started whenever a report arrived, also after the end record -/
def stepOld (s : St) : Op → St × Out
  | .verifyBegin => ({ s with verifyPending := true }, .nothing)
  | o => step s o

def runOld (s : St) : List Op → List Out
  | [] => []
  | o :: os => (stepOld s o).2 :: runOld (stepOld s o).1 os

def run (s : St) : List Op → List Out
  | [] => []
  | o :: os => (step s o).2 :: run (step s o).1 os

def final (s : St) : List Op → St
  | [] => s
  | o :: os => final (step s o).1 os

end TV.SendFile
