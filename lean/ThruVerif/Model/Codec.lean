import ThruVerif.Basic.Bytes
/-!
Control-protocol codec: a generic layout interpreter (`encL` / `decL`) and the nine control records of
`internal/transfer/controlproto.go` expressed as layouts.  The layouts are *checked against the token
lists regenerated from the source* in `Props/C18.lean` (`decide`), so a change of field order or width in
any `write*` / `read*` body breaks an obligation there.
-/
namespace TV.Codec
open TV

/-- Field kinds that occur in the control protocol. -/
inductive Fld
  | tag (b : Nat)                      -- constant byte written by the encoder (consumed by the dispatcher on read)
  | uint (w : Nat)                     -- w-byte big-endian unsigned
  | lenBytes (w : Nat) (lim : Option Nat)  -- w-byte length prefix, optional read-side bound, then that many bytes
  | rep (w : Nat) (ws : List Nat)      -- w-byte count, then `count` groups of big-endian uints of widths `ws`
  deriving Repr, DecidableEq

inductive Val
  | unit
  | n (v : Nat)
  | bs (b : Bytes)
  | reps (g : List (List Nat))
  deriving Repr, DecidableEq

def encGroup : List Nat → List Nat → Bytes
  | w :: ws, v :: vs => putBE w v ++ encGroup ws vs
  | _, _ => []

def encGroups (ws : List Nat) : List (List Nat) → Bytes
  | [] => []
  | g :: gs => encGroup ws g ++ encGroups ws gs

def encF : Fld → Val → Bytes
  | .tag b, _ => [UInt8.ofNat b]
  | .uint w, .n v => putBE w v
  | .lenBytes w _, .bs b => putBE w b.length ++ b
  | .rep w ws, .reps gs => putBE w gs.length ++ encGroups ws gs
  | _, _ => []

def FitsGroup : List Nat → List Nat → Prop
  | [], [] => True
  | w :: ws, v :: vs => v < 256 ^ w ∧ FitsGroup ws vs
  | _, _ => False

def Fits : Fld → Val → Prop
  | .tag b, .unit => b < 256
  | .uint w, .n v => v < 256 ^ w
  | .lenBytes w lim, .bs b => b.length < 256 ^ w ∧ (∀ l, lim = some l → b.length ≤ l)
  | .rep w ws, .reps gs => gs.length < 256 ^ w ∧ ∀ g ∈ gs, FitsGroup ws g
  | _, _ => False

def decGroup : List Nat → Bytes → Except DErr (List Nat × Bytes)
  | [], bs => .ok ([], bs)
  | w :: ws, bs =>
    match getU w bs with
    | .error e => .error e
    | .ok (v, r) =>
      match decGroup ws r with
      | .error e => .error e
      | .ok (vs, r') => .ok (v :: vs, r')

def decGroups (ws : List Nat) : Nat → Bytes → Except DErr (List (List Nat) × Bytes)
  | 0, bs => .ok ([], bs)
  | k+1, bs =>
    match decGroup ws bs with
    | .error e => .error e
    | .ok (g, r) =>
      match decGroups ws k r with
      | .error e => .error e
      | .ok (gs, r') => .ok (g :: gs, r')

/-- read side of one field. `tag` fields are consumed by the dispatcher, not by the record reader. -/
def decF : Fld → Bytes → Except DErr (Val × Bytes)
  | .tag b, bs =>
    match takeN 1 bs with
    | .error e => .error e
    | .ok (h, r) => if h = [UInt8.ofNat b] then .ok (.unit, r) else .error (.badTag (beVal h 0))
  | .uint w, bs =>
    match getU w bs with
    | .error e => .error e
    | .ok (v, r) => .ok (.n v, r)
  | .lenBytes w lim, bs =>
    match getU w bs with
    | .error e => .error e
    | .ok (len, r) =>
      if (match lim with | some l => decide (len > l) | none => false) then .error .tooLong else
      match takeN len r with
      | .error e => .error e
      | .ok (b, r') => .ok (.bs b, r')
  | .rep w ws, bs =>
    match getU w bs with
    | .error e => .error e
    | .ok (cnt, r) =>
      match decGroups ws cnt r with
      | .error e => .error e
      | .ok (gs, r') => .ok (.reps gs, r')

theorem decGroup_enc (ws vs : List Nat) (rest : Bytes) (h : FitsGroup ws vs) :
    decGroup ws (encGroup ws vs ++ rest) = .ok (vs, rest) := by
  induction ws generalizing vs with
  | nil => cases vs <;> simp [FitsGroup] at h; simp [encGroup, decGroup]
  | cons w ws ih =>
    cases vs with
    | nil => simp [FitsGroup] at h
    | cons v vs =>
      simp only [FitsGroup] at h
      simp only [encGroup, decGroup, List.append_assoc, getU_putBE _ _ _ h.1, ih vs h.2]

theorem decGroups_enc (ws : List Nat) (gs : List (List Nat)) (rest : Bytes) (h : ∀ g ∈ gs, FitsGroup ws g) :
    decGroups ws gs.length (encGroups ws gs ++ rest) = .ok (gs, rest) := by
  induction gs with
  | nil => simp [encGroups, decGroups]
  | cons g gs ih =>
    have hg := h g (by simp)
    have hgs : ∀ g' ∈ gs, FitsGroup ws g' := fun g' hm => h g' (by simp [hm])
    simp only [encGroups, decGroups, List.length_cons, List.append_assoc, decGroup_enc _ _ _ hg, ih hgs]

theorem decF_encF (f : Fld) (v : Val) (rest : Bytes) (h : Fits f v) :
    decF f (encF f v ++ rest) = .ok (v, rest) := by
  cases f with
  | tag b =>
    cases v <;> simp [Fits] at h
    have := takeN_append [UInt8.ofNat b] rest
    simp only [List.length_singleton, List.cons_append, List.nil_append] at this
    simp [encF, decF, this]
  | uint w =>
    cases v <;> simp [Fits] at h
    simp [encF, decF, getU_putBE _ _ _ h]
  | lenBytes w lim =>
    cases v <;> simp [Fits] at h
    rename_i b
    obtain ⟨h1, h2⟩ := h
    simp only [encF, decF, List.append_assoc, getU_putBE _ _ _ h1, takeN_append]
    cases lim with
    | none => simp
    | some l =>
      have := h2 l rfl
      have hn : ¬ (b.length > l) := by omega
      simp [hn]
  | rep w ws =>
    cases v <;> simp [Fits] at h
    rename_i gs
    obtain ⟨h1, h2⟩ := h
    simp only [encF, decF, List.append_assoc, getU_putBE _ _ _ h1, decGroups_enc _ _ _ h2]

def encL : List Fld → List Val → Bytes
  | f :: fs, v :: vs => encF f v ++ encL fs vs
  | _, _ => []

def decL : List Fld → Bytes → Except DErr (List Val × Bytes)
  | [], bs => .ok ([], bs)
  | f :: fs, bs =>
    match decF f bs with
    | .error e => .error e
    | .ok (v, r) =>
      match decL fs r with
      | .error e => .error e
      | .ok (vs, r') => .ok (v :: vs, r')

inductive FitsL : List Fld → List Val → Prop
  | nil : FitsL [] []
  | cons {f v fs vs} : Fits f v → FitsL fs vs → FitsL (f :: fs) (v :: vs)

/-- **codec_generic**: every layout round-trips and leaves exactly the bytes that followed it. -/
theorem decL_encL (fs : List Fld) (vs : List Val) (rest : Bytes) (h : FitsL fs vs) :
    decL fs (encL fs vs ++ rest) = .ok (vs, rest) := by
  induction h with
  | nil => simp [encL, decL]
  | cons hf _ ih =>
    simp only [encL, decL, List.append_assoc, decF_encF _ _ _ hf, ih]

/-- decoding consumes a prefix: the input is what was consumed followed by the remainder -/
theorem decGroup_prefix {ws : List Nat} {bs r : Bytes} {vs : List Nat} (h : decGroup ws bs = .ok (vs, r)) :
    ∃ c, bs = c ++ r := by
  induction ws generalizing bs vs with
  | nil => simp [decGroup] at h; exact ⟨[], by simp [h.2]⟩
  | cons w ws ih =>
    simp only [decGroup, getU] at h
    split at h
    · cases h
    · rename_i hh
      split at hh
      · cases hh
      · rename_i h1 r1 ht
        cases hh
        split at h
        · cases h
        · rename_i vs' r' hd
          cases h
          obtain ⟨c2, hc2⟩ := ih hd
          obtain ⟨hs, _⟩ := takeN_ok ht
          exact ⟨h1 ++ c2, by rw [hs, hc2]; simp⟩

/-! ### The control records -/

inductive Rec
  | fileBegin (relPath : Bytes) (fileSize chunkSize streamID hashAlg stripeIndex stripeCount stripeStart stripeChunks : Nat)
  | credit (streamID credits : Nat)
  | creditBatch (entries : List (Nat × Nat))
  | fileEnd (streamID crc : Nat)
  | fileDone (streamID : Nat) (ok : Bool) (err : Bytes)
  | fileResumeInfo (fileID : Bytes) (streamID total : Nat) (bitmap : Bytes) (lastChunk lastHash : Nat)
  | resumeRequest (fileID : Bytes) (streamID : Nat)
  | dataStreams (count : Nat)
  | end_
  deriving Repr, DecidableEq

inductive Kind
  | fileBegin | credit | creditBatch | fileEnd | fileDone | fileResumeInfo | resumeRequest | dataStreams | end_
  deriving Repr, DecidableEq

def Rec.kind : Rec → Kind
  | .fileBegin .. => .fileBegin | .credit .. => .credit | .creditBatch .. => .creditBatch
  | .fileEnd .. => .fileEnd | .fileDone .. => .fileDone | .fileResumeInfo .. => .fileResumeInfo
  | .resumeRequest .. => .resumeRequest | .dataStreams .. => .dataStreams | .end_ => .end_

def Kind.tag : Kind → Nat
  | .fileBegin => 0x10 | .credit => 0x11 | .fileEnd => 0x12 | .fileDone => 0x13 | .fileResumeInfo => 0x14
  | .resumeRequest => 0x15 | .creditBatch => 0x16 | .dataStreams => 0x17 | .end_ => 0xFF

def allKinds : List Kind :=
  [.fileBegin, .credit, .creditBatch, .fileEnd, .fileDone, .fileResumeInfo, .resumeRequest, .dataStreams, .end_]

/-- body layout (after the type byte) -/
def Kind.body (maxPath : Nat) : Kind → List Fld
  | .fileBegin => [.lenBytes 2 (some maxPath), .uint 8, .uint 4, .uint 8, .uint 1, .uint 2, .uint 2, .uint 4, .uint 4]
  | .credit => [.uint 8, .uint 4]
  | .creditBatch => [.rep 4 [8, 4]]
  | .fileEnd => [.uint 8, .uint 4]
  | .fileDone => [.uint 8, .uint 1, .lenBytes 2 none]
  | .fileResumeInfo => [.lenBytes 2 none, .uint 8, .uint 4, .lenBytes 4 none, .uint 4, .uint 8]
  | .resumeRequest => [.lenBytes 2 none, .uint 8]
  | .dataStreams => [.uint 2]
  | .end_ => []

def Rec.vals : Rec → List Val
  | .fileBegin p a b c d e f g h => [.bs p, .n a, .n b, .n c, .n d, .n e, .n f, .n g, .n h]
  | .credit a b => [.n a, .n b]
  | .creditBatch es => [.reps (es.map fun (a, b) => [a, b])]
  | .fileEnd a b => [.n a, .n b]
  | .fileDone a ok e => [.n a, .n (if ok then 1 else 0), .bs e]
  | .fileResumeInfo f a b bm c d => [.bs f, .n a, .n b, .bs bm, .n c, .n d]
  | .resumeRequest f a => [.bs f, .n a]
  | .dataStreams c => [.n c]
  | .end_ => []

def pairOf : List Nat → Nat × Nat
  | [a, b] => (a, b)
  | _ => (0, 0)

def Kind.ofVals : Kind → List Val → Option Rec
  | .fileBegin, [.bs p, .n a, .n b, .n c, .n d, .n e, .n f, .n g, .n h] => some (.fileBegin p a b c d e f g h)
  | .credit, [.n a, .n b] => some (.credit a b)
  | .creditBatch, [.reps gs] => some (.creditBatch (gs.map pairOf))
  | .fileEnd, [.n a, .n b] => some (.fileEnd a b)
  | .fileDone, [.n a, .n ok, .bs e] => some (.fileDone a (ok == 1) e)
  | .fileResumeInfo, [.bs f, .n a, .n b, .bs bm, .n c, .n d] => some (.fileResumeInfo f a b bm c d)
  | .resumeRequest, [.bs f, .n a] => some (.resumeRequest f a)
  | .dataStreams, [.n c] => some (.dataStreams c)
  | .end_, [] => some .end_
  | _, _ => none

def kindOfTag (t : Nat) : Option Kind := allKinds.find? (fun k => k.tag == t)

/-- `write<Record>`: type byte, then the body -/
def encode (maxPath : Nat) (r : Rec) : Bytes :=
  UInt8.ofNat r.kind.tag :: encL (r.kind.body maxPath) r.vals

/-- `readControlMessage`: read the type byte, dispatch, read the body -/
def decode (maxPath : Nat) (bs : Bytes) : Except DErr (Rec × Bytes) :=
  match takeN 1 bs with
  | .error e => .error e
  | .ok (h, r) =>
    match kindOfTag (beVal h 0) with
    | none => .error (.badTag (beVal h 0))
    | some k =>
      match decL (k.body maxPath) r with
      | .error e => .error e
      | .ok (vs, r') =>
        match k.ofVals vs with
        | some rec => .ok (rec, r')
        | none => .error (.badTag 0)   -- unreachable: `decL` returns values shaped like the layout

/-- the protocol's field limits -/
def Wf (maxPath : Nat) : Rec → Prop
  | .fileBegin p a b c d e f g h =>
      p.length ≤ maxPath ∧ p.length < 2 ^ 16 ∧ a < 2 ^ 64 ∧ b < 2 ^ 32 ∧ c < 2 ^ 64 ∧ d < 2 ^ 8 ∧ e < 2 ^ 16 ∧ f < 2 ^ 16 ∧ g < 2 ^ 32 ∧ h < 2 ^ 32
  | .credit a b => a < 2 ^ 64 ∧ b < 2 ^ 32
  | .creditBatch es => es.length < 2 ^ 32 ∧ ∀ e ∈ es, e.1 < 2 ^ 64 ∧ e.2 < 2 ^ 32
  | .fileEnd a b => a < 2 ^ 64 ∧ b < 2 ^ 32
  | .fileDone a _ e => a < 2 ^ 64 ∧ e.length < 2 ^ 16
  | .fileResumeInfo f a b bm c d => f.length < 2 ^ 16 ∧ a < 2 ^ 64 ∧ b < 2 ^ 32 ∧ bm.length < 2 ^ 32 ∧ c < 2 ^ 32 ∧ d < 2 ^ 64
  | .resumeRequest f a => f.length < 2 ^ 16 ∧ a < 2 ^ 64
  | .dataStreams c => c < 2 ^ 16
  | .end_ => True

/-! ### The control header: magic, 32-bit length, manifest JSON (opaque bytes) -/

def encodeHeader (magic json : Bytes) : Bytes := magic ++ putBE 4 json.length ++ json

def decodeHeader (magic : Bytes) (bs : Bytes) : Except DErr (Bytes × Bytes) :=
  match takeN magic.length bs with
  | .error e => .error e
  | .ok (h, r) =>
    if h ≠ magic then .error (.badTag 0) else
    match getU 4 r with
    | .error e => .error e
    | .ok (len, r1) =>
      match takeN len r1 with
      | .error e => .error e
      | .ok (j, r2) => .ok (j, r2)

/-- decode a whole stream of records until input ends -/
def decodeAll (maxPath : Nat) : Nat → Bytes → Except DErr (List Rec)
  | 0, _ => .ok []
  | fuel+1, bs =>
    if bs = [] then .ok [] else
    match decode maxPath bs with
    | .error e => .error e
    | .ok (r, rest) =>
      match decodeAll maxPath fuel rest with
      | .error e => .error e
      | .ok rs => .ok (r :: rs)

end TV.Codec
