/-!
Signaling hub (`internal/peers/hub.go`): `Add` (+ the returned `remove` closure), `CloseSession`, `List`,
`Broadcast`, `BroadcastExcept`, `SendTo`, executed by any number of threads.

Granularity: one model step = the stretch of real code between two places where the schedule
controller can park a goroutine (operation boundaries and the `verifhook.Point`s of hub.go):

* `Add`                    one step (everything under `h.mu.Lock`)
* `remove`                 unlink under the lock | closeSend + wait for the writer | GC under the lock
* `CloseSession`           detach under the lock | one step per detached connection (closeConn + closeSend)
* `List`, `SendTo`         one step (under `h.mu.RLock`)
* `Broadcast*`             look-up under `RLock` | one queue attempt per target, the read lock held until
                           after the last one

The read lock is a counter: steps that need `h.mu.Lock` are disabled while a reader is inside.
Go's map iteration order is arbitrary, so loop steps take the connection to handle next (`pick`) from
the schedule; any member of the remaining target list is allowed.

The two routing tables are kept as flat relations: `conns` = entries of `sessions[sid][conn]`,
`idx` = entries of `byPeerID[sid][peer]`; `reg` = session ids that have a (possibly empty) map
registered (both maps are always created and deleted together).

Ghost state (not in the code): `live` is the *specification* of who is connected — updated only by the
abstract rules "Add registers and replaces the same peer id", "starting remove unregisters", "CloseSession
unregisters the whole session"; `gone` the connections that were unregistered by one of those rules.
-/
namespace TV.Hub

abbrev Sid := Nat
abbrev Conn := Nat
abbrev Peer := Nat
abbrev Msg := Nat

structure Entry where
  sid : Sid
  conn : Conn
  peer : Peer
  deriving DecidableEq, Repr

/-- one queue attempt: channel of `conn`, by an operation called with session id `sid` -/
structure Dlv where
  conn : Conn
  sid : Sid
  msg : Msg
  deriving DecidableEq, Repr

inductive Op
  | add (sid : Sid) (c : Conn) (p : Peer)
  | remove (c : Conn)                             -- the closure returned by the `Add` that registered `c`
  | closeSession (sid : Sid)
  | list (sid : Sid)
  | sendTo (sid : Sid) (p : Peer) (m : Msg)
  | bcast (sid : Sid) (m : Msg)
  | bcastExcept (sid : Sid) (p : Peer) (m : Msg)
  deriving DecidableEq, Repr

inductive Pc
  | idle
  | bcastHold (sid : Sid) (m : Msg) (targets : List Conn)   -- read lock held; `targets` still to be tried
  | removeClose (sid : Sid) (c : Conn)                      -- unlinked; next: closeSend, wait for the writer
  | removeGC (sid : Sid)                                    -- next: drop the session entry if it is empty
  | closeLoop (targets : List Conn)                         -- session detached; connections still to close
  deriving DecidableEq, Repr

structure Thread where
  pc : Pc
  prog : List Op
  deriving DecidableEq, Repr

inductive Res
  | listed (t : Nat) (sid : Sid) (peers : List Peer)
  | sent (t : Nat) (sid : Sid) (p : Peer) (found : Bool)
  deriving DecidableEq, Repr

structure St where
  reg : List Sid
  conns : List Entry
  idx : List Entry
  closed : List Conn            -- send channel closed
  kicked : List Conn            -- closeFn called (socket closed by the server)
  inbox : List Dlv              -- queued, per channel in FIFO order
  outbox : List Dlv             -- handed to the connection's send function by its writer goroutine
  dropped : List Dlv            -- queue full: skipped
  rlock : Nat
  threads : List Thread
  panicked : Bool
  results : List Res
  cap : Nat
  closures : List Entry         -- the remove closures that exist = every (sid, conn, peer) ever passed to Add
  live : List Entry             -- ghost: specification of the registered connections
  gone : List Conn              -- ghost: connections that were unregistered
  deriving DecidableEq, Repr

def init (cap : Nat) (progs : List (List Op)) : St :=
  { reg := [], conns := [], idx := [], closed := [], kicked := [], inbox := [], outbox := [], dropped := [],
    rlock := 0, threads := progs.map (fun p => ⟨.idle, p⟩), panicked := false, results := [], cap := cap,
    closures := [], live := [], gone := [] }

def connsOf (s : St) (sid : Sid) : List Entry := s.conns.filter (fun e => e.sid == sid)

def idxFind (s : St) (sid : Sid) (p : Peer) : Option Entry :=
  s.idx.find? (fun e => e.sid == sid && e.peer == p)

def queueLen (s : St) (c : Conn) : Nat := (s.inbox.filter (fun d => d.conn == c)).length

/-- `select { case pc.send <- env: default: }` -/
def trySend (s : St) (c : Conn) (sid : Sid) (m : Msg) : St :=
  if c ∈ s.closed then { s with panicked := true }           -- send on a closed channel
  else if queueLen s c < s.cap then { s with inbox := s.inbox ++ [⟨c, sid, m⟩] }
  else { s with dropped := s.dropped ++ [⟨c, sid, m⟩] }

/-- the writer goroutine of `c` takes the oldest queued envelope and hands it to the send function -/
def deliver (s : St) (c : Conn) : Option St :=
  match s.inbox.find? (fun d => d.conn == c) with
  | none => none
  | some d => some { s with inbox := s.inbox.erase d, outbox := s.outbox ++ [d] }

/-! ### the operations, one function per stretch of code between two park places -/

/-- `Add`, last write wins: a different connection registered for this peer id is dropped from the session map … -/
def replConns (s : St) (sid : Sid) (c : Conn) (p : Peer) : List Entry :=
  match idxFind s sid p with
  | some old => if old.conn != c then s.conns.filter (fun e => !(e.sid == sid && e.conn == old.conn)) else s.conns
  | none => s.conns

/-- … and its send channel is closed (if it is still in the session map) -/
def replClosed (s : St) (sid : Sid) (c : Conn) (p : Peer) : List Conn :=
  match idxFind s sid p with
  | some old =>
    if old.conn != c && s.conns.any (fun e => e.sid == sid && e.conn == old.conn) then old.conn :: s.closed
    else s.closed
  | none => s.closed

/-- `Add(sid, {p, c})` — everything under `h.mu.Lock` -/
def doAdd (s : St) (sid : Sid) (c : Conn) (p : Peer) : St :=
  { s with
    reg := if sid ∈ s.reg then s.reg else s.reg ++ [sid]
    conns := (replConns s sid c p).filter (fun e => !(e.sid == sid && e.conn == c)) ++ [⟨sid, c, p⟩]
    idx := s.idx.filter (fun e => !(e.sid == sid && e.peer == p)) ++ [⟨sid, c, p⟩]
    closed := replClosed s sid c p
    closures := s.closures ++ [⟨sid, c, p⟩]
    live := s.live.filter (fun e => !(e.sid == sid && e.peer == p)) ++ [⟨sid, c, p⟩]
    gone := s.gone ++ (s.live.filter (fun e => e.sid == sid && e.peer == p)).map (·.conn) }

/-- first locked region of the remove closure of `e` -/
def doRemoveStart (s : St) (e : Entry) : St × Pc :=
  let live := s.live.filter (fun x => x.conn != e.conn)
  let gone := s.gone ++ (s.live.filter (fun x => x.conn == e.conn)).map (·.conn)
  if e.sid ∈ s.reg && s.conns.any (fun x => x.sid == e.sid && x.conn == e.conn) then
    ({ s with
        conns := s.conns.filter (fun x => !(x.sid == e.sid && x.conn == e.conn))
        idx := match idxFind s e.sid e.peer with
          | some x => if x.conn == e.conn then s.idx.filter (fun x => !(x.sid == e.sid && x.peer == e.peer)) else s.idx
          | none => s.idx
        live := live, gone := gone }, .removeClose e.sid e.conn)
  else
    -- session unknown, or this connection was replaced / detached already
    ({ s with live := live, gone := gone }, .idle)

/-- `pc.closeSend()` and the wait for the writer goroutine (at most 1 s) -/
def doRemoveClose (s : St) (c : Conn) : St := { s with closed := c :: s.closed }

/-- last locked region of remove: drop the session entry if the session's *current* map is empty -/
def doRemoveGC (s : St) (sid : Sid) : St :=
  if sid ∈ s.reg && (connsOf s sid).isEmpty then
    { s with reg := s.reg.filter (· != sid), idx := s.idx.filter (fun e => e.sid != sid) }
  else s

/-- locked region of `CloseSession` -/
def doCloseSession (s : St) (sid : Sid) : St × Pc :=
  let live := s.live.filter (fun e => e.sid != sid)
  let gone := s.gone ++ (s.live.filter (fun e => e.sid == sid)).map (·.conn)
  if sid ∈ s.reg then
    let targets := (connsOf s sid).map (·.conn)
    ({ s with
        reg := s.reg.filter (· != sid)
        conns := s.conns.filter (fun e => e.sid != sid)
        idx := s.idx.filter (fun e => e.sid != sid)
        live := live, gone := gone }, if targets.isEmpty then .idle else .closeLoop targets)
  else ({ s with live := live, gone := gone }, .idle)

/-- one round of `CloseSession`'s loop: closeConn + closeSend of `pick` -/
def doCloseLoop (s : St) (targets : List Conn) (pick : Conn) : St × Pc :=
  ({ s with closed := pick :: s.closed, kicked := pick :: s.kicked },
   if (targets.erase pick).isEmpty then .idle else .closeLoop (targets.erase pick))

def doList (s : St) (t : Nat) (sid : Sid) : St :=
  { s with results := s.results ++ [.listed t sid (if sid ∈ s.reg then (connsOf s sid).map (·.peer) else [])] }

def doSendTo (s : St) (t : Nat) (sid : Sid) (p : Peer) (m : Msg) : St :=
  match idxFind s sid p with
  | none => { s with results := s.results ++ [.sent t sid p false] }
  | some e =>
    if s.conns.any (fun x => x.sid == sid && x.conn == e.conn) then
      let s1 := trySend s e.conn sid m
      { s1 with results := s1.results ++ [.sent t sid p true] }
    else { s with results := s.results ++ [.sent t sid p false] }

def bcastTargets (s : St) (sid : Sid) : List Conn :=
  if sid ∈ s.reg then (connsOf s sid).map (·.conn) else []

def bcastExceptTargets (s : St) (sid : Sid) (p : Peer) : List Conn :=
  if sid ∈ s.reg then
    ((connsOf s sid).filter (fun e => some e.conn != (idxFind s sid p).map (·.conn))).map (·.conn)
  else []

/-- `RLock` + look-up of `Broadcast*`; the read lock is kept if there is anybody to send to -/
def doBcastStart (s : St) (sid : Sid) (m : Msg) (targets : List Conn) : St × Pc :=
  if targets.isEmpty then (s, .idle) else ({ s with rlock := s.rlock + 1 }, .bcastHold sid m targets)

/-- one round of the send loop; the read lock is released after the last one -/
def doHold (s : St) (sid : Sid) (m : Msg) (targets : List Conn) (pick : Conn) : St × Pc :=
  let s1 := trySend s pick sid m
  if (targets.erase pick).isEmpty then ({ s1 with rlock := s1.rlock - 1 }, .idle)
  else (s1, .bcastHold sid m (targets.erase pick))

/-- does the next action of this thread need `h.mu.Lock`? -/
def needsWrite (th : Thread) : Bool :=
  match th.pc with
  | .idle => match th.prog with
    | .add .. :: _ => true
    | .remove .. :: _ => true
    | .closeSession .. :: _ => true
    | _ => false
  | .removeGC _ => true
  | _ => false

def finished (th : Thread) : Bool :=
  match th.pc, th.prog with
  | .idle, [] => true
  | _, _ => false

/-- the state change and the next program counter of thread `t` (its program handled by `step`) -/
def stepCore (s : St) (t : Nat) (th : Thread) (pick : Conn) : Option (St × Pc × List Op) :=
  match th.pc with
  | .idle =>
    match th.prog with
    | [] => none
    | .add sid c p :: rest =>
      -- connection ids are never reused (protocol.NewMsgID); an Add with a used id is outside the model: skipped
      if s.closures.any (fun e => e.conn == c) then some (s, .idle, rest)
      else some (doAdd s sid c p, .idle, rest)
    | .remove c :: rest =>
      match s.closures.find? (fun e => e.conn == c) with
      | none => some (s, .idle, rest)                 -- no such closure exists
      | some e => let r := doRemoveStart s e; some (r.1, r.2, rest)
    | .closeSession sid :: rest => let r := doCloseSession s sid; some (r.1, r.2, rest)
    | .list sid :: rest => some (doList s t sid, .idle, rest)
    | .sendTo sid p m :: rest => some (doSendTo s t sid p m, .idle, rest)
    | .bcast sid m :: rest => let r := doBcastStart s sid m (bcastTargets s sid); some (r.1, r.2, rest)
    | .bcastExcept sid p m :: rest =>
      let r := doBcastStart s sid m (bcastExceptTargets s sid p); some (r.1, r.2, rest)
  | .bcastHold sid m targets =>
    if pick ∈ targets then let r := doHold s sid m targets pick; some (r.1, r.2, th.prog) else none
  | .removeClose sid c => some (doRemoveClose s c, .removeGC sid, th.prog)
  | .removeGC sid => some (doRemoveGC s sid, .idle, th.prog)
  | .closeLoop targets =>
    if pick ∈ targets then let r := doCloseLoop s targets pick; some (r.1, r.2, th.prog) else none

/-- one step of thread `t`; `pick` = the connection a loop handles next (ignored elsewhere) -/
def step (s : St) (t : Nat) (pick : Conn) : Option St :=
  match s.threads[t]? with
  | none => none
  | some th =>
    if needsWrite th && s.rlock != 0 then none else
    match stepCore s t th pick with
    | none => none
    | some (s1, pc, prog) => some { s1 with threads := s1.threads.set t ⟨pc, prog⟩ }

/-- a schedule item: a thread step (with the loop pick), or a writer goroutine delivering one envelope -/
inductive Act
  | thr (t : Nat) (pick : Conn)
  | writer (c : Conn)
  deriving DecidableEq, Repr

def act (s : St) : Act → Option St
  | .thr t pick => step s t pick
  | .writer c => deliver s c

/-- run a schedule; items that are not enabled are skipped (as the schedule controller does) -/
def run (s : St) : List Act → St
  | [] => s
  | a :: as => match act s a with
    | some s' => run s' as
    | none => run s as

end TV.Hub
