/-!
One chunk buffer of the sender's shared buffer pool (`chunkPoolFor`: one pool per chunk size for every transfer of the process)
and the read jobs that target it (`readAtWithPool`: a pool goroutine fills the buffer on behalf of a sender worker).

A sender worker takes the buffer, queues a read job for it, waits for the result, computes the checksum over the buffer, writes the
frame and puts the buffer back. When its transfer is cancelled while it waits for the read it gives the buffer back too:
`waitOnCancel := true` only after the job has finished (fix e43a242), `false` at once (the code before). Buffers are independent of
each other, so one buffer is modelled; a buffer's content is the id of the job that wrote it last. Each step is one atomic action
of a worker or of a read-pool goroutine.
-/
namespace TV.BufPool

inductive Phase
  | reading        -- job queued, waiting for the result
  | gotResult      -- result received, checksum not yet computed
  | summed         -- checksum computed, frame being written
  deriving DecidableEq, Repr

structure St where
  inPool : Bool
  holder : Option (Nat × Phase)    -- the worker that took the buffer: its job id and where it is
  pendingIds : List Nat            -- read jobs targeting this buffer that have not finished
  ownFinished : Bool               -- the holder's job has finished, its result has not been taken
  content : Option Nat             -- id of the job that wrote the buffer last
  next : Nat                       -- next job id
  wrong : Nat                      -- frames whose checksum was computed over another job's bytes
  deriving DecidableEq, Repr

inductive Step
  | take                           -- a worker Gets the buffer and queues its read
  | runRead (k : Nat)              -- a pool goroutine completes the ReadAt of job k
  | result                         -- the holder receives its result
  | sum                            -- the holder computes the checksum
  | put                            -- the holder has written the frame and puts the buffer back
  | cancel                         -- the holder's transfer is cancelled while it waits for its read
  deriving DecidableEq, Repr

def step (waitOnCancel : Bool) (s : St) : Step → Option St
  | .take =>
    if s.inPool = true ∧ s.holder = none then
      some { s with inPool := false, holder := some (s.next, .reading), pendingIds := s.next :: s.pendingIds, ownFinished := false, next := s.next + 1 }
    else none
  | .runRead k =>
    if k ∈ s.pendingIds then
      some { s with pendingIds := s.pendingIds.erase k, content := some k,
                    ownFinished := if s.holder = some (k, .reading) then true else s.ownFinished }
    else none
  | .result =>
    match s.holder with
    | some (k, .reading) => if s.ownFinished then some { s with holder := some (k, .gotResult), ownFinished := false } else none
    | _ => none
  | .sum =>
    match s.holder with
    | some (k, .gotResult) =>
      some { s with holder := some (k, .summed), wrong := if s.content = some k then s.wrong else s.wrong + 1 }
    | _ => none
  | .put =>
    match s.holder with
    | some (_, .summed) => some { s with holder := none, inPool := true }
    | _ => none
  | .cancel =>
    match s.holder with
    | some (_, .reading) =>
      if waitOnCancel then
        (if s.ownFinished then some { s with holder := none, inPool := true, ownFinished := false } else none)
      else some { s with holder := none, inPool := true, ownFinished := false }
    | _ => none

def init : St := { inPool := true, holder := none, pendingIds := [], ownFinished := false, content := none, next := 0, wrong := 0 }

def run (waitOnCancel : Bool) (s : St) : List Step → Option St
  | [] => some s
  | a :: as => match step waitOnCancel s a with
    | some s' => run waitOnCancel s' as
    | none => none

end TV.BufPool
