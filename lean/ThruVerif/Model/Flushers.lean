/-!
Several flushers of one sidecar (`Sidecar.Flush` is called by the receiver's ticker, by `finalizeFile` and by the signal handler's
`FlushAllFlushers`), all going through the fixed temporary name `<path>.tmp`:

    lock; marshal; WriteFile(tmp) (= open with O_TRUNC, write, close); Rename(tmp, path); unlock

`Model/Disk` has one flusher and the chunk writers; this model has any number of flushers and looks only at what kind of file is
installed at `<path>`. `mutex := false` is the function without the lock around the I/O (what a seeded change did).
Bitmaps are abstract values (`Nat`): which bitmap a flusher marshals is `Model/Disk`'s business.
-/
namespace TV.Flushers

inductive Pc
  | idle
  | snapped (b : Nat)     -- marshalled b
  | writing (b : Nat)     -- temp file opened with O_TRUNC, part of b written
  | wroteTmp (b : Nat)    -- WriteFile returned
  | renamed               -- Rename returned (or failed), before unlock
  deriving DecidableEq, Repr

/-- content of a file -/
inductive File
  | full (b : Nat)        -- a complete, valid version
  | torn (owner : Nat)    -- truncated / partly written; `owner` truncated it last
  deriving DecidableEq, Repr

structure St where
  pcs : List Pc
  lock : Option Nat
  tmp : Option File
  disk : Option File
  snaps : List Nat        -- every bitmap marshalled so far (history)
  deriving DecidableEq, Repr

inductive Step
  | begin_ (j b : Nat)
  | trunc (j : Nat)
  | finish (j : Nat)
  | rename (j : Nat)
  | end_ (j : Nat)
  | kill                  -- the process dies: files stay, flushers are gone
  deriving DecidableEq, Repr

def step (mutex : Bool) (s : St) : Step → Option St
  | .begin_ j b =>
    if s.pcs[j]? = some .idle ∧ (mutex = true → s.lock = none) then
      some { s with pcs := s.pcs.set j (.snapped b), lock := if mutex then some j else s.lock, snaps := b :: s.snaps }
    else none
  | .trunc j =>
    match s.pcs[j]? with
    | some (.snapped b) => some { s with pcs := s.pcs.set j (.writing b), tmp := some (.torn j) }
    | _ => none
  | .finish j =>
    match s.pcs[j]? with
    | some (.writing b) =>
      -- the file is complete only if nobody truncated it since this flusher did
      some { s with pcs := s.pcs.set j (.wroteTmp b), tmp := if s.tmp = some (.torn j) then some (.full b) else s.tmp }
    | _ => none
  | .rename j =>
    match s.pcs[j]? with
    | some (.wroteTmp _) =>
      match s.tmp with
      | some f => some { s with pcs := s.pcs.set j .renamed, disk := some f, tmp := none }
      | none => some { s with pcs := s.pcs.set j .renamed }     -- ENOENT: Flush returns an error
    | _ => none
  | .end_ j =>
    if s.pcs[j]? = some .renamed then
      some { s with pcs := s.pcs.set j .idle, lock := if s.lock = some j then none else s.lock }
    else none
  | .kill => some { s with pcs := s.pcs.map (fun _ => .idle), lock := none }

def init (n : Nat) : St := { pcs := List.replicate n .idle, lock := none, tmp := none, disk := none, snaps := [] }

def run (mutex : Bool) (s : St) : List Step → Option St
  | [] => some s
  | a :: as => match step mutex s a with
    | some s' => run mutex s' as
    | none => none

/-- what a restart finds at `<path>`: nothing, or a complete version that some flusher marshalled -/
def diskOk (s : St) : Prop := s.disk = none ∨ ∃ b, s.disk = some (.full b) ∧ b ∈ s.snaps

end TV.Flushers
