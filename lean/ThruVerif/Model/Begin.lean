/-!
A resumed file whose chunks are all recorded (`remaining = 0` when its `FileBegin` is handled) at the receiver: `handleFileBegin`
builds the resume report - which marks the file as offered for verification (`verifyAsked`) - and registers the file for the data
readers; readers process frames of a registered file; `FileEnd` announces how many frames were written. `completeLocked`:
nothing missing and (no verification pending, or `FileEnd` is in and every announced frame was processed).

`reportFirst := true` is the order after fix 91ddaf6 (report, then registration), `false` the order before.
-/
namespace TV.Begin

structure St where
  phase : Nat            -- how far handleFileBegin has got: 0 nothing, 1 first action done, 2 both done
  registered : Bool
  verifyAsked : Bool
  framesRecv : Nat       -- frames of this file processed (written)
  endCount : Option Nat  -- FileEnd received with this frame count
  finalised : Bool
  drained : Nat          -- frames that arrived after finalisation and were discarded
  deriving DecidableEq, Repr

inductive Step
  | begin_               -- the next action of handleFileBegin
  | frame                -- a data reader processes (or, after finalisation, drains) one frame of the file
  | fileEnd (n : Nat)    -- FileEnd{count n} handled by the control loop (after FileBegin: same ordered stream)
  deriving DecidableEq, Repr

def complete (s : St) : Bool :=
  if !s.verifyAsked then true
  else match s.endCount with
    | some n => decide (s.framesRecv ≥ n)
    | none => false

def step (reportFirst : Bool) (s : St) : Step → Option St
  | .begin_ =>
    if s.phase = 0 then
      some (if reportFirst then { s with phase := 1, verifyAsked := true } else { s with phase := 1, registered := true })
    else if s.phase = 1 then
      some (if reportFirst then { s with phase := 2, registered := true } else { s with phase := 2, verifyAsked := true })
    else none
  | .frame =>
    if s.finalised then some { s with drained := s.drained + 1 }
    else if s.registered then
      let s1 := { s with framesRecv := s.framesRecv + 1 }
      some (if complete s1 then { s1 with finalised := true } else s1)
    else none                -- parked until the file is registered
  | .fileEnd n =>
    if s.phase = 2 ∧ s.endCount = none then
      let s1 := { s with endCount := some n }
      some (if !s1.finalised && complete s1 then { s1 with finalised := true } else s1)
    else none

def init : St := { phase := 0, registered := false, verifyAsked := false, framesRecv := 0, endCount := none, finalised := false, drained := 0 }

def run (reportFirst : Bool) (s : St) : List Step → Option St
  | [] => some s
  | a :: as => match step reportFirst s a with
    | some s' => run reportFirst s' as
    | none => none

end TV.Begin
