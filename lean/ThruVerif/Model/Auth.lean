import ThruVerif.Gen.Consts
import ThruVerif.Model.Sha256
/-!
Byte-level model of `internal/app/transport_auth.go`, parametric in the MAC function
(`mac key msg`; the driver instantiates it with HMAC-SHA256 from `Model/Sha256.lean`).

* `deriveKey`        - `deriveAuthKey`:    `HMAC(joinCode, exporter keying material)`
* `proof`            - `computeAuthMac`:   `HMAC(key, version ‖ role ‖ nonce)`
* `mkMsg`            - `writeAuthMessage`: `version ‖ role ‖ nonce(16) ‖ mac(32)` (50 bytes)
* `check`            - `readAuthMessage` + the role test + `hmac.Equal` of `authAsSender` / `authAsReceiver`
* `receiverRun` / `senderRun` - the two honest endpoints as functions of the bytes they read.
-/
namespace TV.Auth

abbrev Bytes := List UInt8
abbrev Mac := Bytes → Bytes → Bytes

def version : UInt8 := 1
def roleSender : UInt8 := 1
def roleReceiver : UInt8 := 2
def nonceSize : Nat := 16
def macSize : Nat := 32
def msgSize : Nat := 50

/-- the constants are the ones `xlate` reads off the source on every run -/
theorem consts_tied :
    version.toNat = TV.Gen.Consts.authVersion ∧ roleSender.toNat = TV.Gen.Consts.authRoleSender ∧
    roleReceiver.toNat = TV.Gen.Consts.authRoleReceive ∧ nonceSize = TV.Gen.Consts.authNonceSize ∧
    macSize = TV.Gen.Consts.authMacSize ∧ msgSize = TV.Gen.Consts.authMsgSize ∧
    msgSize = 1 + 1 + nonceSize + macSize := by decide

def deriveKey (mac : Mac) (code ekm : Bytes) : Bytes := mac code ekm

def proof (mac : Mac) (key : Bytes) (role : UInt8) (nonce : Bytes) : Bytes :=
  mac key ([version, role] ++ nonce)

def mkMsg (mac : Mac) (key : Bytes) (role : UInt8) (nonce : Bytes) : Bytes :=
  [version, role] ++ nonce ++ proof mac key role nonce

inductive Verdict
  | accept
  | shortRead      -- fewer than 50 bytes before EOF: `io.ReadFull` fails
  | badVersion
  | badRole
  | badProof
  deriving DecidableEq, Repr

/-- the checks on the 50 bytes read: `readAuthMessage`, the role test, `hmac.Equal` -/
def checkBuf (mac : Mac) (key : Bytes) (expectRole : UInt8) : Bytes → Verdict
  | v :: r :: rest =>
    if v ≠ version then .badVersion
    else if r ≠ expectRole then .badRole
    else if rest.drop nonceSize = proof mac key r (rest.take nonceSize) then .accept
    else .badProof
  | _ => .shortRead

/-- what an endpoint that expects `expectRole` decides about the bytes `wire` that arrive on the auth stream
    (`io.ReadFull` of exactly 50 bytes; anything after them is not looked at) -/
def check (mac : Mac) (key : Bytes) (expectRole : UInt8) (wire : Bytes) : Verdict :=
  if wire.length < msgSize then .shortRead else checkBuf mac key expectRole (wire.take msgSize)

/-- `authAsReceiver`: verdict on what was read; on acceptance the reply it writes (with its fresh nonce) -/
def receiverRun (mac : Mac) (key : Bytes) (incoming : Bytes) (respNonce : Bytes) : Verdict × Option Bytes :=
  match check mac key roleSender incoming with
  | .accept => (.accept, some (mkMsg mac key roleReceiver respNonce))
  | v => (v, none)

/-- `authAsSender`: the message it writes first, and its verdict on the reply -/
def senderRun (mac : Mac) (key : Bytes) (nonce : Bytes) (reply : Bytes) : Bytes × Verdict :=
  (mkMsg mac key roleSender nonce, check mac key roleReceiver reply)

/-- both honest ends on one connection: the sender's message goes to the receiver, the reply (if any) back -/
def honestPair (mac : Mac) (codeS ekmS codeR ekmR : Bytes) (nS nR : Bytes) : Verdict × Verdict :=
  let kS := deriveKey mac codeS ekmS
  let kR := deriveKey mac codeR ekmR
  let m1 := mkMsg mac kS roleSender nS
  match receiverRun mac kR m1 nR with
  | (.accept, some m2) => ((senderRun mac kS nS m2).2, .accept)
  | (v, _) => (.shortRead, v)        -- the receiver returns, its stream closes, the sender reads EOF

def hmacSha256 : Mac := TV.Sha256.hmac

end TV.Auth
