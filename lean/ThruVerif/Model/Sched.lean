/-!
`HybridScheduler.Next` (internal/scheduler/hybrid.go) as used by `activateNext`: pending = not started;
small files go first while fewer than `smallSlots` small files are active (smallest remaining, ties by
RelPath order = list order); otherwise one of the pending medium/large files is chosen — the float
credit arithmetic is abstracted to an arbitrary choice `pick`. Aging never applies to a pending file
(its `LastScheduledAt` is zero), so time does not occur in the model.
-/
namespace TV.Sched

structure F where
  key : Nat
  remaining : Nat
  started : Bool
  deriving DecidableEq, Repr

structure Cfg where
  smallThr : Nat
  smallSlots : Nat
  deriving DecidableEq, Repr

def isSmall (cfg : Cfg) (f : F) : Bool := decide (f.remaining ≤ cfg.smallThr)

def pendingSmall (cfg : Cfg) (fs : List F) : List F := fs.filter (fun f => !f.started && isSmall cfg f)
def activeSmall (cfg : Cfg) (fs : List F) : Nat := (fs.filter (fun f => f.started && isSmall cfg f)).length
def pendingWeighted (cfg : Cfg) (fs : List F) : List F := fs.filter (fun f => !f.started && !isSmall cfg f)

/-- smallest remaining; on ties the earlier element (RelPath order) -/
def argmin : List F → Option F
  | [] => none
  | f :: fs =>
    match argmin fs with
    | none => some f
    | some g => if g.remaining < f.remaining then some g else some f

def markStarted (k : Nat) (fs : List F) : List F :=
  fs.map (fun f => if f.key = k then { f with started := true } else f)

def next (cfg : Cfg) (fs : List F) (pick : Nat) : Option (Nat × List F) :=
  let ps := pendingSmall cfg fs
  if activeSmall cfg fs < cfg.smallSlots ∧ ps ≠ [] then
    match argmin ps with
    | some f => some (f.key, markStarted f.key fs)
    | none => none
  else
    let pw := pendingWeighted cfg fs
    match pw[pick % pw.length]? with
    | some f => some (f.key, markStarted f.key fs)
    | none => none

theorem argmin_mem {fs : List F} {f : F} (h : argmin fs = some f) : f ∈ fs := by
  induction fs generalizing f with
  | nil => simp [argmin] at h
  | cons g gs ih =>
    simp only [argmin] at h
    split at h
    · cases h; simp
    · rename_i m hm
      split at h
      · cases h; simp [ih hm]
      · cases h; simp

theorem argmin_some {fs : List F} (h : fs ≠ []) : (argmin fs).isSome = true := by
  cases fs with
  | nil => exact absurd rfl h
  | cons g gs =>
    simp only [argmin]
    split
    · rfl
    · split <;> rfl

theorem next_returns_pending {cfg : Cfg} {fs : List F} {pick k : Nat} {fs' : List F}
    (h : next cfg fs pick = some (k, fs')) :
    (∃ f ∈ fs, f.key = k ∧ f.started = false) ∧ fs' = markStarted k fs := by
  unfold next at h
  simp only at h
  split at h
  · split at h
    · rename_i f hf
      cases h
      have hm := argmin_mem hf
      simp only [pendingSmall, List.mem_filter, Bool.and_eq_true, Bool.not_eq_true'] at hm
      exact ⟨⟨f, hm.1, rfl, hm.2.1⟩, rfl⟩
    · cases h
  · split at h
    · rename_i f hf
      cases h
      have hm : f ∈ pendingWeighted cfg fs := List.mem_of_getElem? hf
      simp only [pendingWeighted, List.mem_filter, Bool.and_eq_true, Bool.not_eq_true'] at hm
      exact ⟨⟨f, hm.1, rfl, hm.2.1⟩, rfl⟩
    · cases h

theorem markStarted_started (k : Nat) (fs : List F) : ∀ f ∈ markStarted k fs, f.key = k → f.started = true := by
  intro f hf hk
  simp only [markStarted, List.mem_map] at hf
  obtain ⟨g, _, rfl⟩ := hf
  split
  · rfl
  · rename_i hne; split at hk <;> simp_all

theorem next_spec (cfg : Cfg) (fs : List F) (pick k : Nat) (fs' : List F) (h : next cfg fs pick = some (k, fs')) :
    (∃ f ∈ fs, f.key = k ∧ f.started = false) ∧ (∀ f ∈ fs', f.key = k → f.started = true) ∧
    (∀ pick' k' fs'', next cfg fs' pick' = some (k', fs'') → (∃ f ∈ fs', f.key = k' ∧ f.started = false)) := by
  obtain ⟨h1, h2⟩ := next_returns_pending h
  refine ⟨h1, ?_, ?_⟩
  · rw [h2]; exact markStarted_started k fs
  · intro p k' fs'' h'
    exact (next_returns_pending h').1

/-- consecutive `next` calls never return the same key -/
theorem next_ne (cfg : Cfg) (fs : List F) (p p' k k' : Nat) (fs' fs'' : List F)
    (h : next cfg fs p = some (k, fs')) (h' : next cfg fs' p' = some (k', fs'')) : k ≠ k' := by
  obtain ⟨_, h2, h3⟩ := next_spec cfg fs p k fs' h
  obtain ⟨f, hf, hk, hs⟩ := h3 p' k' fs'' h'
  intro he
  have := h2 f hf (by omega)
  simp [this] at hs

theorem next_progress (cfg : Cfg) (fs : List F) (pick : Nat) (hc : 1 ≤ cfg.smallSlots)
    (hnone : ∀ f ∈ fs, f.started = false) (hne : fs ≠ []) : (next cfg fs pick).isSome = true := by
  have hact : activeSmall cfg fs = 0 := by
    simp only [activeSmall, List.length_eq_zero_iff, List.filter_eq_nil_iff]
    intro f hf; simp [hnone f hf]
  unfold next
  simp only [hact]
  by_cases hps : pendingSmall cfg fs = []
  · have hpw : pendingWeighted cfg fs = fs := by
      simp only [pendingWeighted, List.filter_eq_self]
      intro f hf
      have : f ∉ pendingSmall cfg fs := by simp [hps]
      simp only [pendingSmall, List.mem_filter, Bool.and_eq_true, Bool.not_eq_true', not_and] at this
      have := this hf (hnone f hf)
      simp [hnone f hf, this]
    simp only [hps, ne_eq, not_true_eq_false, and_false, if_false, hpw]
    have hl : 0 < fs.length := by cases fs with | nil => exact absurd rfl hne | cons a b => simp
    have : pick % fs.length < fs.length := Nat.mod_lt _ hl
    simp [List.getElem?_eq_getElem this]
  · have h0 : 0 < cfg.smallSlots := by omega
    simp only [h0, hps, ne_eq, not_false_eq_true, and_self, if_true]
    have := argmin_some hps
    cases hq : argmin (pendingSmall cfg fs) with
    | none => simp [hq] at this
    | some f => simp

end TV.Sched
