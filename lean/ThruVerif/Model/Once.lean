/-!
Finalisation of files at the receiver (`finalizeFile` in `RecvManifestMultiStream`): a file is finalised from several goroutines -
the data reader that wrote its last chunk, the control loop when `FileEnd` arrives, any reader that hits an error - and
`completedCount`, which every success exit of the receiver compares with the number of files, must count each file at most once.

`finalizeFile` tests and sets the per-file `done` flag in one critical section (`gate`); the winner later increments
`completedCount` under `statsMu` when its verdict is ok (`count`). `atomic := false` is the test and the set in two critical sections
(what a seeded change did).
-/
namespace TV.Once

structure St where
  done : List Nat                 -- files whose flag is set
  passed : List (Nat × Bool)      -- finalisers past the gate that have not counted yet (file, verdict)
  testing : List (Nat × Bool)     -- (non-atomic variant) finalisers that read `done = false` and have not set it yet
  completed : Nat                 -- completedCount
  counted : List Nat              -- files counted, in order (history)
  deriving DecidableEq, Repr

inductive Step
  | gate (f : Nat) (ok : Bool)    -- finalizeFile(state, ok, ..) reaches the flag
  | set (f : Nat) (ok : Bool)     -- non-atomic variant: the delayed `done = true`
  | count (f : Nat) (ok : Bool)   -- the statsMu section
  deriving DecidableEq, Repr

def step (atomic : Bool) (s : St) : Step → Option St
  | .gate f ok =>
    if f ∈ s.done then some s      -- already finalised: return
    else if atomic then some { s with done := f :: s.done, passed := (f, ok) :: s.passed }
    else some { s with testing := (f, ok) :: s.testing }
  | .set f ok =>
    if (f, ok) ∈ s.testing then
      some { s with testing := s.testing.erase (f, ok), done := f :: s.done, passed := (f, ok) :: s.passed }
    else none
  | .count f ok =>
    if (f, ok) ∈ s.passed then
      some { s with passed := s.passed.erase (f, ok), completed := if ok then s.completed + 1 else s.completed,
                    counted := if ok then f :: s.counted else s.counted }
    else none

def init : St := { done := [], passed := [], testing := [], completed := 0, counted := [] }

def run (atomic : Bool) (s : St) : List Step → Option St
  | [] => some s
  | a :: as => match step atomic s a with
    | some s' => run atomic s' as
    | none => none

end TV.Once
