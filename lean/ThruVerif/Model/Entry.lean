import ThruVerif.Model.Sidecar
/-!
What the receiver does with stored resume metadata when a file begins (`handleFileBegin` in `RecvManifestMultiStream`, resume on):
if the data file `<base>/<rel path>` is missing or does not have the announced length, the metadata file next to it
(`<base>/.thruflux_resumedata/<id>`) is removed; then `LoadOrCreateSidecarWithFallback` (called with an empty fallback path) uses
that file if it loads and carries the same (id, size, chunk size), else starts from an empty bitmap.

`entry` keeps the general form of `LoadOrCreateSidecarWithFallback` (primary, then fallback); `entryAt` is what the receiver calls.
Until repo fix f8ec551 the receiver also passed the metadata of the *rooted* directory `<out>/<root>` as fallback
while writing to `<out>`: that record describes `<out>/<root>/<rel path>`, another data file - `entry`'s single `df` argument hid
exactly that (the stat test looks at the file being written, not at the file the fallback record was written for).
-/
namespace TV.Entry
open TV TV.Sidecar

inductive DataFile
  | absent
  | present (size : Nat)
  deriving DecidableEq, Repr

/-- the stored metadata survives the stat test -/
def kept (df : DataFile) (fileSize : Nat) : Bool :=
  match df with
  | .present s => s == fileSize
  | .absent => false

/-- `some s`: the receiver resumes from the stored record `s`; `none`: it starts from an empty bitmap -/
def entry (magic : Bytes) (version : Nat) (df : DataFile) (primary fallback : Option Bytes) (fileID : Bytes) (fileSize chunkSize : Nat) :
    Option Sc :=
  let p := if kept df fileSize then primary else none
  let f := if kept df fileSize then fallback else none
  match loadValid magic version p fileID fileSize chunkSize with
  | some s => some s
  | none => loadValid magic version f fileID fileSize chunkSize

/-- what `handleFileBegin` / `buildResumeInfo` do: the only metadata consulted is the file next to the data file -/
def entryAt (magic : Bytes) (version : Nat) (df : DataFile) (primary : Option Bytes) (fileID : Bytes) (fileSize chunkSize : Nat) :
    Option Sc :=
  entry magic version df primary none fileID fileSize chunkSize

/-- The receiver as it was, with both data files in view: `dfHere` is the file being written (`<out>/<rel path>`, the one the stat
test looks at), the fallback record lies under `<out>/<root>` and describes the file over there. -/
def entryOld (magic : Bytes) (version : Nat) (dfHere : DataFile) (primary fallbackElsewhere : Option Bytes) (fileID : Bytes)
    (fileSize chunkSize : Nat) : Option Sc :=
  entry magic version dfHere primary fallbackElsewhere fileID fileSize chunkSize

end TV.Entry
