import ThruVerif.Model.Sidecar
/-!
What the receiver does with stored resume metadata when a file begins (`handleFileBegin` in `RecvManifestMultiStream`, resume on):
if the data file is missing or does not have the announced length, the metadata files (primary location and, in rooted mode, the
fallback location) are removed; then `LoadOrCreateSidecarWithFallback` uses the primary file if it loads and carries the same
(id, size, chunk size), else the fallback file under the same condition, else starts from an empty bitmap.
-/
namespace TV.Entry
open TV TV.Sidecar

inductive DataFile
  | absent
  | present (size : Nat)
  deriving DecidableEq, Repr

/-- the stored metadata survives the stat test -/
def kept (df : DataFile) (fileSize : Nat) : Bool :=
  match df with
  | .present s => s == fileSize
  | .absent => false

/-- `some s`: the receiver resumes from the stored record `s`; `none`: it starts from an empty bitmap -/
def entry (magic : Bytes) (version : Nat) (df : DataFile) (primary fallback : Option Bytes) (fileID : Bytes) (fileSize chunkSize : Nat) :
    Option Sc :=
  let p := if kept df fileSize then primary else none
  let f := if kept df fileSize then fallback else none
  match loadValid magic version p fileID fileSize chunkSize with
  | some s => some s
  | none => loadValid magic version f fileID fileSize chunkSize

end TV.Entry
