/-!
Resume negotiation for one file: what the receiver reports about the state it found (`buildResumeInfo` in
`RecvManifestMultiStream`) and what the sender plans from that report (`applyResumeInfo` in `SendManifestMultiStream`).
`Model/SendFile` takes the plan as given and dispatches chunks; `Model/Sidecar` decides whether a stored sidecar is used at all.

Chunk contents are abstracted to one bit per chunk, `good i` = the bytes of chunk `i` in the receiver's data file equal the source.
A chunk hash is abstracted to that bit as well: the sender's hash of its own chunk equals the reported one iff the chunk is good
(no collisions; the hash functions themselves are not modelled).
-/
namespace TV.Resume

/-- sender options (`Options.ResumeVerifyTail`, `ResumeVerify` other than "none", a hash algorithm other than none) -/
structure Cfg where
  tail : Nat
  verify : Bool
  hashOn : Bool
  deriving DecidableEq, Repr

/-- the receiver's `FileResumeInfo` (bitmap as a list of `total` bits) -/
structure Info where
  total : Nat
  bitmap : List Bool
  lastVerified : Nat       -- highest recorded chunk, or `total` when nothing is recorded
  hashKnown : Bool         -- `LastVerifiedHash != resumeHashUnknown`
  hashGood : Bool          -- the reported hash is the hash of the source's chunk
  deriving DecidableEq, Repr

def bit (b : List Bool) (i : Nat) : Bool := b[i]?.getD false

/-- `Sidecar.HighestComplete`: the highest set bit below `n` -/
def highest (b : List Bool) : Nat → Option Nat
  | 0 => none
  | n + 1 => if bit b n then some n else highest b n

def countSet (b : List Bool) : Nat := (b.filter id).length

/-- `buildResumeInfo` with resume on and `total > 0`; `hashed` = the chunk hash could be computed in time -/
def recvInfo (total : Nat) (b : List Bool) (good : Nat → Bool) (hashed : Bool) (hashOn : Bool) : Info :=
  match highest b total with
  | some h => { total, bitmap := b, lastVerified := h, hashKnown := !hashOn || hashed, hashGood := good h }
  | none => { total, bitmap := b, lastVerified := total, hashKnown := true, hashGood := true }

structure Plan where
  forceFrom : Nat
  verifyNeeded : Bool
  deriving DecidableEq, Repr

/-- `applyResumeInfo` for a report with a non-empty bitmap: the computation of `forceSendFrom` and `verifyNeeded`, line by line -/
def plan (c : Cfg) (info : Info) : Plan :=
  let total := info.total
  let v := info.lastVerified
  let f0 := if v < total then v + 1 else total
  let hashUnknown := !info.hashKnown
  let verifyNeeded := c.verify && decide (v < total) && c.hashOn && !hashUnknown
  let allComplete := decide (total > 0) && decide (countSet info.bitmap ≥ total)
  let f1 := if !allComplete then (if c.tail > 0 ∧ f0 > 0 then (if c.tail ≥ f0 then 0 else f0 - c.tail) else f0) else f0
  let f2 := if f1 > total then total else f1
  let f3 := if hashUnknown ∧ total > 0 then
      let tail := if c.tail = 0 then 1 else c.tail
      let minForce := if total > tail then total - tail else 0
      let f := if f2 > minForce then minForce else f2
      -- the last recorded chunk could not be hashed: it is sent again (fix 85dab2f)
      if v < total ∧ f > v then v else f
    else f2
  { forceFrom := f3, verifyNeeded }

/-- the regular pass skips chunk `i` (`nextChunkToSend`: bit set and below `forceSendFrom`) -/
def skipped (info : Info) (p : Plan) (i : Nat) : Bool := bit info.bitmap i && decide (i < p.forceFrom)

/-- the verification goroutine asks for a re-send of the verified chunk -/
def resend (info : Info) (p : Plan) : Bool := p.verifyNeeded && !info.hashGood

/-- chunk `i` travels (by the regular pass or as the re-send) -/
def sent (info : Info) (p : Plan) (i : Nat) : Bool :=
  decide (i < info.total) && (!skipped info p i || (resend info p && decide (i = info.lastVerified)))

/-- the chunk indices that travel, in increasing order -/
def sentList (info : Info) (p : Plan) : List Nat := (List.range info.total).filter (sent info p)

/-- after the run: a chunk is good if it was good or travelled (the receiver writes only CRC-checked source bytes) -/
def goodAfter (good : Nat → Bool) (info : Info) (p : Plan) (i : Nat) : Bool := good i || sent info p i

end TV.Resume
