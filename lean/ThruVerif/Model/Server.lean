/-!
Signaling server state (`internal/session/session.go`, the `/session` and `/ws` handlers, `connLimiter` and
`tokenBucket` of `cmd/thruserv/main.go`).

Two layers.

* **Resource layer** (`ROp`, `rstep`): the *atomic* operations on the shared resources — one mutex-protected
  region each: `Store.CreateLimited`, `Store.GetByJoinCode` (with its lazy expiry), `Store.Delete`,
  `connLimiter.Acquire/Release`, the receiver admission ("count the session's receivers and register" under
  `receiverAdmitMu` + `hub.Add`; a sender's `hub.Add`), the hub's `remove` and `CloseSession`.
  Whatever the interleaving of concurrently running handlers, the shared state evolves by *some sequence* of these
  operations, so an invariant of all `ROp` sequences holds under every schedule.
* **Handler layer** (`Ev`, `expand`): what one HTTP / WebSocket request does when it runs alone, written as the
  list of resource operations it issues, in the order of the code. Used for the sequential differential against
  the real binary and to show that every handler run is a resource-level run.

Time is an explicit input (`now`, milliseconds). Session ids are modelled by a counter: the code draws 128 random
bits, assumed never to repeat. Join-code candidates (the random generator's output) are an input list; the
collision loop takes the first candidate that is not registered.
-/
namespace TV.Server

structure Sess where
  id : Nat
  code : Nat
  expires : Nat                -- 0: `ExpiresAt.IsZero()`
  deriving DecidableEq, Repr

structure Store where
  sessions : List Sess         -- map id -> Session
  byCode : List (Nat × Nat)    -- map join code -> id
  ttl : Nat
  nextId : Nat                 -- ghost: ids handed out so far (fresh random ids)
  deriving DecidableEq, Repr

inductive CreateRes | ok (s : Sess) | limit | exhausted
  deriving DecidableEq, Repr

/-- `for _, exists := byCode[code]; exists; { code = generateJoinCode() … }` over the generator's output -/
def pickCode (byCode : List (Nat × Nat)) : List Nat → Option Nat
  | [] => none
  | c :: cs => if byCode.any (fun e => e.1 == c) then pickCode byCode cs else some c

/-- `Store.CreateLimited(max)`; `Store.Create()` is `max = 0` -/
def Store.create (st : Store) (max now : Nat) (cands : List Nat) : Store × CreateRes :=
  if max > 0 ∧ st.sessions.length ≥ max then (st, .limit) else
  match pickCode st.byCode cands with
  | none => (st, .exhausted)          -- not a behaviour of the code: its loop would keep drawing
  | some c =>
    let s : Sess := ⟨st.nextId, c, if st.ttl > 0 then now + st.ttl else 0⟩
    ({ st with sessions := st.sessions.filter (fun x => x.id != s.id) ++ [s]
               byCode := st.byCode.filter (fun e => e.1 != c) ++ [(c, s.id)]
               nextId := st.nextId + 1 }, .ok s)

def Sess.expired (s : Sess) (now : Nat) : Bool := s.expires != 0 && now > s.expires

/-- `Store.GetByJoinCode(code)` at time `now`: an expired session is dropped on the way -/
def Store.getByCode (st : Store) (code now : Nat) : Store × Option Sess :=
  match st.byCode.find? (fun e => e.1 == code) with
  | none => (st, none)
  | some (_, id) =>
    match st.sessions.find? (fun x => x.id == id) with
    | none => (st, none)
    | some s =>
      if s.expired now then
        ({ st with sessions := st.sessions.filter (fun x => x.id != id)
                   byCode := st.byCode.filter (fun e => e.1 != code) }, none)
      else (st, some s)

/-- `Store.Delete(id)` -/
def Store.delete (st : Store) (id : Nat) : Store :=
  match st.sessions.find? (fun x => x.id == id) with
  | none => st
  | some s => { st with sessions := st.sessions.filter (fun x => x.id != id)
                        byCode := st.byCode.filter (fun e => e.1 != s.code) }

def Store.count (st : Store) : Nat := st.sessions.length

/-! ### shared server state -/

inductive Role | sender | receiver | other
  deriving DecidableEq, Repr

structure Member where
  sid : Nat
  conn : Nat
  peer : Nat
  role : Role
  deriving DecidableEq, Repr

structure Cfg where
  maxSessions : Nat
  maxRecv : Nat
  maxWS : Nat
  maxMsg : Nat
  deriving DecidableEq, Repr

structure St where
  cfg : Cfg
  store : Store
  members : List Member        -- hub registrations (session -> connection -> peer)
  inUse : Nat                  -- connLimiter.inUse
  deriving DecidableEq, Repr

def init (cfg : Cfg) (ttl : Nat) : St :=
  { cfg := cfg, store := ⟨[], [], ttl, 1⟩, members := [], inUse := 0 }

def receiversOf (ms : List Member) (sid : Nat) : Nat :=
  (ms.filter (fun m => m.sid == sid && m.role == .receiver)).length

/-- `hub.Add`: last write wins per (session, peer id) -/
def hubAdd (ms : List Member) (m : Member) : List Member :=
  ms.filter (fun x => !(x.sid == m.sid && x.peer == m.peer) && x.conn != m.conn) ++ [m]

inductive ROp
  | create (now : Nat) (cands : List Nat)
  | lookup (code now : Nat)
  | delete (sid : Nat)
  | acquire
  | release
  | register (m : Member)          -- receiver: count + register under one lock; other roles: register
  | remove (conn : Nat)
  | closeSession (sid : Nat)
  deriving DecidableEq, Repr

inductive ROut
  | created (s : Sess) | createLimit | createExhausted
  | found (s : Sess) | notFound
  | acquired | connLimit
  | admitted | recvLimit
  | unit
  deriving DecidableEq, Repr

def rstep (s : St) : ROp → St × ROut
  | .create now cands =>
    match s.store.create s.cfg.maxSessions now cands with
    | (st, .ok x) => ({ s with store := st }, .created x)
    | (st, .limit) => ({ s with store := st }, .createLimit)
    | (st, .exhausted) => ({ s with store := st }, .createExhausted)
  | .lookup code now =>
    match s.store.getByCode code now with
    | (st, some x) => ({ s with store := st }, .found x)
    | (st, none) => ({ s with store := st }, .notFound)
  | .delete sid => ({ s with store := s.store.delete sid }, .unit)
  | .acquire =>
    if s.cfg.maxWS > 0 ∧ s.inUse ≥ s.cfg.maxWS then (s, .connLimit) else ({ s with inUse := s.inUse + 1 }, .acquired)
  | .release => ({ s with inUse := s.inUse - 1 }, .unit)
  | .register m =>
    if s.cfg.maxRecv > 0 ∧ m.role = .receiver ∧ receiversOf s.members m.sid ≥ s.cfg.maxRecv then (s, .recvLimit)
    else ({ s with members := hubAdd s.members m }, .admitted)
  | .remove conn => ({ s with members := s.members.filter (fun x => x.conn != conn) }, .unit)
  | .closeSession sid => ({ s with members := s.members.filter (fun x => x.sid != sid) }, .unit)

def rrun (s : St) : List ROp → St
  | [] => s
  | o :: os => rrun (rstep s o).1 os

/-! ### message size and rate -/

/-- read loop: `maxMessageSize > 0 && len(message) > maxMessageSize` closes the connection -/
def msgAccepted (cfg : Cfg) (size : Nat) : Bool := cfg.maxMsg == 0 || size ≤ cfg.maxMsg

/-- `tokenBucket` in exact arithmetic. `u` = one token in the unit of account; the driver runs it with
`u = 1000000` (time in ms, rate in milli-tokens per second, tokens in micro-tokens: ms × mtok/s = µtok);
the theorems hold for every `u`. -/
structure Bucket where
  tokens : Nat
  rate : Nat
  burst : Nat
  deriving DecidableEq, Repr

def Bucket.new (u rate burst : Nat) : Bucket :=
  let b := if burst < 1 then 1 else burst
  ⟨b * u, rate, b * u⟩

/-- `Allow()` after `dt` time units -/
def Bucket.allow (u : Nat) (b : Bucket) (dt : Nat) : Bucket × Bool :=
  let t := min (b.tokens + dt * b.rate) b.burst
  if t < u then ({ b with tokens := t }, false) else ({ b with tokens := t - u }, true)

/-- number of admitted calls over a sequence of inter-arrival gaps -/
def Bucket.runAllow (u : Nat) (b : Bucket) : List Nat → Bucket × Nat
  | [] => (b, 0)
  | dt :: dts =>
    let (b1, ok) := b.allow u dt
    let (b2, n) := b1.runAllow u dts
    (b2, n + (if ok then 1 else 0))

/-- `connLimiter` alone -/
def connRun (limit : Nat) : Nat → List Bool → Nat × List Bool
  | inUse, [] => (inUse, [])
  | inUse, true :: ops =>
    if limit > 0 ∧ inUse ≥ limit then let (n, r) := connRun limit inUse ops; (n, false :: r)
    else let (n, r) := connRun limit (inUse + 1) ops; (n, true :: r)
  | inUse, false :: ops => connRun limit (inUse - 1) ops

/-! ### handler layer: one request running alone, as the resource operations it issues -/

inductive Ev
  | post (mr : Option Int) (now : Nat) (cands : List Nat)          -- POST /session[?max_receivers=mr]; unparsable = 0
  | wsOpen (code peer : Nat) (role : Role) (mr : Option Int) (conn now : Nat)  -- code/peer 0 = missing
  | wsClose (conn : Nat)                                           -- the socket ends; deferred clean-up runs
  | timer (sid : Nat)                                              -- the session's expiry timer fires
  deriving DecidableEq, Repr

inductive Out
  | created (s : Sess)
  | bad (msg : String)          -- 400
  | notFound                    -- 404
  | tooMany (msg : String)      -- 429
  | opened (sid : Nat)
  | closed (hostLeft : Bool)
  | fired
  | stuck
  deriving DecidableEq, Repr

def mrCheck (cfg : Cfg) : Option Int → Option Out
  | none => none
  | some n =>
    if n < 1 then some (.bad "invalid max_receivers")
    else if cfg.maxRecv > 0 ∧ n > (cfg.maxRecv : Int) then some (.tooMany "max receivers exceeds server limit")
    else none

/-- handler-layer state: the shared state plus the sockets whose handler is still running (`socks`; a connection
that was replaced by a newer one of the same peer id stays here until its socket ends) -/
structure HSt where
  st : St
  socks : List Member
  deriving DecidableEq, Repr

def hinit (cfg : Cfg) (ttl : Nat) : HSt := ⟨init cfg ttl, []⟩

/-- receiver admission / registration, then (if refused) the deferred `Release` -/
def wsAdmit (s : St) (x : Sess) (conn peer : Nat) (role : Role) (ops : List ROp) (held : Bool) : St × Out × List ROp :=
  let m : Member := ⟨x.id, conn, peer, role⟩
  match rstep s (.register m) with
  | (s3, .admitted) => (s3, .opened x.id, ops ++ [.register m])
  | (s3, _) =>
    if held then ((rstep s3 .release).1, .tooMany "receiver limit reached", ops ++ [.register m, .release])
    else (s3, .tooMany "receiver limit reached", ops ++ [.register m])

/-- `connLimiter` (only when configured), then admission -/
def wsAcquire (s : St) (x : Sess) (conn peer : Nat) (role : Role) (ops : List ROp) : St × Out × List ROp :=
  if s.cfg.maxWS > 0 then
    match rstep s .acquire with
    | (s2, .acquired) => wsAdmit s2 x conn peer role (ops ++ [.acquire]) true
    | (s2, _) => (s2, .tooMany "connection limit reached", ops ++ [.acquire])
  else wsAdmit s x conn peer role ops false

/-- the `/ws` handler up to and including registration -/
def wsOpen (s : St) (code peer : Nat) (role : Role) (mr : Option Int) (conn now : Nat) : St × Out × List ROp :=
  if code = 0 then (s, .bad "missing join_code", []) else
  match rstep s (.lookup code now) with
  | (s1, .found x) =>
    if peer = 0 then (s1, .bad "missing peer_id", [.lookup code now]) else
    if role = .other then (s1, .bad "role must be 'sender' or 'receiver'", [.lookup code now]) else
    match (if role = .sender then mrCheck s.cfg mr else none) with
    | some e => (s1, e, [.lookup code now])
    | none => wsAcquire s1 x conn peer role [.lookup code now]
  | (s1, _) => (s1, .notFound, [.lookup code now])

/-- what the deferred calls of a handler do when its socket ends, in their order: (sender) `store.Delete`,
`removePeer`, `wsConnLimiter.Release` -/
def closeOps (cfg : Cfg) (m : Member) : List ROp :=
  (if m.role = .sender then [ROp.delete m.sid] else []) ++ [.remove m.conn] ++ (if cfg.maxWS > 0 then [.release] else [])

/-- the handler, as (new state, answer, the resource operations performed in order) -/
def handle (h : HSt) : Ev → HSt × Out × List ROp
  | .post mr now cands =>
    match mrCheck h.st.cfg mr with
    | some e => (h, e, [])
    | none =>
      -- (the `store.Count()` pre-test reads only; the deciding test is inside CreateLimited)
      match rstep h.st (.create now cands) with
      | (s1, .created x) => (⟨s1, h.socks⟩, .created x, [.create now cands])
      | (s1, .createLimit) => (⟨s1, h.socks⟩, .tooMany "session limit reached", [.create now cands])
      | (s1, _) => (⟨s1, h.socks⟩, .stuck, [.create now cands])
  | .wsOpen code peer role mr conn now =>
    match wsOpen h.st code peer role mr conn now with
    | (s1, .opened sid, ops) => (⟨s1, h.socks ++ [⟨sid, conn, peer, role⟩]⟩, .opened sid, ops)
    | (s1, o, ops) => (⟨s1, h.socks⟩, o, ops)
  | .wsClose conn =>
    match h.socks.find? (fun m => m.conn == conn) with
    | some m =>
      let ops := closeOps h.st.cfg m
      (⟨rrun h.st ops, h.socks.filter (fun x => x.conn != conn)⟩, .closed (m.role = .sender), ops)
    | none => (h, .stuck, [])
  | .timer sid =>
    -- `hub.CloseSession` closes the sockets of the registered connections; their handlers then end
    let kicked := h.socks.filter (fun m => h.st.members.any (fun x => x.conn == m.conn && x.sid == sid))
    let ops := [ROp.closeSession sid, .delete sid] ++ kicked.flatMap (closeOps h.st.cfg)
    (⟨rrun h.st ops, h.socks.filter (fun m => !kicked.any (fun k => k.conn == m.conn))⟩, .fired, ops)

end TV.Server
