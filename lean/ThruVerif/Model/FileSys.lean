/-!
Per-file projection of the multi-stream transfer (`SendManifestMultiStream` ↔ `RecvManifestMultiStream`),
safety part. Payloads are abstract ids (`src[i]`; `0` = garbage). Frames in flight are delivered in
any order (an over-approximation of per-stream FIFO across several streams, sound for safety); the
network may damage any frame (its CRC then fails). The sender is constrained only by what
`Props/C17` proves about it: it sends source bytes, it emits FileEnd once, after every *needed* chunk
has been handed out, and it sends nothing afterwards; FileEnd carries the number of frames sent.
The receiver follows `markChunkComplete` / `markEndReceived` / `completeLocked` / `finalizeFile`.

`need i` = the receiver did not advertise chunk `i`, or it is the advertised highest chunk whose
bytes on disk differ from the source (the sender's hash comparison fails and it re-sends it).
-/
namespace TV.FileSys

structure Frame where
  idx : Nat
  pay : Nat
  crcOk : Bool
  deriving DecidableEq, Repr

structure St where
  src : List Nat
  disk : List Nat
  bits : List Bool           -- in-memory sidecar bitmap (or arrival set without a sidecar)
  need : List Bool           -- ghost, constant
  remaining : Nat
  verifyAsked : Bool
  flight : List Frame
  sent : List Bool           -- ghost: chunk handed out at least once
  sentCount : Nat
  endSent : Option Nat       -- FileEnd emitted, carrying this frame count
  endReceived : Bool
  endCount : Nat
  framesRecv : Nat
  written : List Bool        -- ghost: a CRC-correct frame for this chunk was written
  fin : Option Bool          -- finalised (ok?)
  deriving DecidableEq, Repr

inductive Step
  | send (i : Nat)
  | corrupt (k : Nat)
  | sendEnd
  | endArrives
  | deliver (k : Nat)
  deriving DecidableEq, Repr

def countFalse (l : List Bool) : Nat := (l.filter (· == false)).length

/-- `completeLocked` -/
def complete (s : St) : Bool :=
  s.remaining == 0 && (!s.verifyAsked || (s.endReceived && decide (s.endCount ≤ s.framesRecv)))

def finIfComplete (s : St) : St := if complete s then { s with fin := some true } else s

def allNeededSent (s : St) : Bool :=
  (List.range s.src.length).all fun i => !(s.need[i]?.getD false) || (s.sent[i]?.getD false)

def step (s : St) : Step → Option St
  | .send i =>
    if i < s.src.length ∧ s.endSent = none then
      some { s with flight := s.flight ++ [⟨i, s.src[i]?.getD 0, true⟩], sent := s.sent.set i true, sentCount := s.sentCount + 1 }
    else none
  | .corrupt k =>
    match s.flight[k]? with
    | some f => some { s with flight := s.flight.set k { f with pay := 0, crcOk := false } }
    | none => none
  | .sendEnd =>
    if s.endSent = none ∧ allNeededSent s then some { s with endSent := some s.sentCount } else none
  | .endArrives =>
    match s.endSent with
    | none => none
    | some c =>
      if s.endReceived then none
      else if s.fin.isSome then some { s with endReceived := true, endCount := c }
      else some (finIfComplete { s with endReceived := true, endCount := c })
  | .deliver k =>
    match s.flight[k]? with
    | none => none
    | some f =>
      let s := { s with flight := s.flight.eraseIdx k }
      if s.fin.isSome then some s                                   -- late frame: drained
      else if f.idx ≥ s.src.length then some { s with fin := some false }
      else if !f.crcOk then some { s with fin := some false }
      else
        let s := { s with disk := s.disk.set f.idx f.pay, written := s.written.set f.idx true, framesRecv := s.framesRecv + 1 }
        if s.bits[f.idx]?.getD false then some (finIfComplete s)
        else some (finIfComplete { s with bits := s.bits.set f.idx true, remaining := s.remaining - 1 })

/-- highest set bit, if any -/
def highest (bits : List Bool) : Option Nat :=
  (List.range bits.length).reverse.find? fun i => bits[i]?.getD false

def init (src disk0 : List Nat) (bits0 : List Bool) : St :=
  let need := (List.range src.length).map fun i =>
    !(bits0[i]?.getD false) || (highest bits0 == some i && decide (disk0[i]?.getD 0 ≠ src[i]?.getD 0))
  { src := src, disk := disk0, bits := bits0, need := need, remaining := countFalse bits0,
    verifyAsked := bits0.any id, flight := [], sent := List.replicate src.length false, sentCount := 0,
    endSent := none, endReceived := false, endCount := 0, framesRecv := 0,
    written := List.replicate src.length false, fin := none }

inductive Reachable (s0 : St) : St → Prop
  | init : Reachable s0 s0
  | step {s s' a} : Reachable s0 s → step s a = some s' → Reachable s0 s'

end TV.FileSys
