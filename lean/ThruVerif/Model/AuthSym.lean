/-!
Symbolic (Dolev-Yao) model of the transport authentication: terms with a free `hmac` constructor; attacker
derivations (projection, pairing, MAC under derivable keys, bytes and nonces of its choice, codes other than the
honest one, exporter output of the TLS sessions it terminates). Definitions only; theorems in `Props/C08.lean`.
-/
namespace TV.AuthSym

inductive Tm
  | code (c : Nat) | ekm (e : Nat) | nonce (n : Nat) | byte (b : Nat)
  | hmac (k t : Tm) | pair (a b : Tm)
  deriving DecidableEq, Repr

open Tm

/-- components reachable by projections only (the attacker cannot look inside an hmac) -/
inductive Parts (K : Tm → Prop) : Tm → Prop
  | base {t} : K t → Parts K t
  | fst {a b} : Parts K (pair a b) → Parts K a
  | snd {a b} : Parts K (pair a b) → Parts K b

/-- atoms the attacker may invent: bytes, its own nonces (odd ids), codes other than `secret`, any ekm in `E` -/
structure World where
  secret : Nat            -- the honest join code
  E : Nat → Prop          -- TLS sessions the attacker terminates (it knows their exporter output)

inductive Der (W : World) (K : Tm → Prop) : Tm → Prop
  | parts {t} : Parts K t → Der W K t
  | byte (b) : Der W K (byte b)
  | nonce (n) : Der W K (nonce n)
  | code {c} : c ≠ W.secret → Der W K (code c)
  | ekm {e} : W.E e → Der W K (ekm e)
  | pair {a b} : Der W K a → Der W K b → Der W K (pair a b)
  | hmac {k t} : Der W K k → Der W K t → Der W K (hmac k t)

/-- Honest traffic never exposes the code or a session key as a projectable component. -/
def Clean (W : World) (K : Tm → Prop) : Prop :=
  (¬ Parts K (code W.secret)) ∧ (∀ e, ¬ Parts K (hmac (code W.secret) (ekm e)))


open Tm
/-- wire message ⟨version, role, nonce, mac⟩ -/
def msg (role n : Nat) (mac : Tm) : Tm := pair (byte 1) (pair (byte role) (pair (nonce n) mac))
def key (c e : Nat) : Tm := hmac (code c) (ekm e)
def proof (k : Tm) (role n : Nat) : Tm := hmac k (pair (byte 1) (pair (byte role) (nonce n)))

def roleSender := 1
def roleReceiver := 2

/-- what an honest party ever puts on the wire: its proof for its own role, under the key of its own session -/
structure HonestSend where
  e : Nat        -- TLS session
  role : Nat
  n : Nat
  deriving DecidableEq

def wire (c : Nat) (h : HonestSend) : Tm := msg h.role h.n (proof (key c h.e) h.role h.n)

/-- attacker knowledge = all honest wire messages of the run -/
def Know (c : Nat) (sent : List HonestSend) : Tm → Prop := fun t => ∃ h ∈ sent, t = wire c h

/-- the check an honest party performs on an incoming message, for its own session `e` and the role it expects -/
def accepts (c e expectRole : Nat) (m : Tm) : Prop :=
  ∃ n, m = msg expectRole n (proof (key c e) expectRole n)


end TV.AuthSym
