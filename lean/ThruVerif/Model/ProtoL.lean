/-!
Liveness abstraction of the multi-stream transfer for one file over one connection with `n` announced
data streams and `chunks` chunks (any relation between the two, including 0 chunks). Payloads and
indices are erased to counters. QUIC's visibility rule: a stream becomes visible to the receiver only
when a frame is written on it (or on a higher-numbered one), or when the sender closes it at the end.
The receiver accepts data streams as they appear (`accept`), not all of them before anything else.
-/
namespace TV.ProtoLFix

/-- Liveness abstraction with data streams accepted lazily (control records and frames are handled as soon as their
    stream is accepted; nothing waits for "all n streams"). One file, one connection. -/
structure St where
  n : Nat
  toSend : Nat
  buffered : List Nat
  visible : Nat
  accepted : Nat
  remaining : Nat
  endSent : Bool
  endRecv : Bool
  doneSent : Bool
  doneRecv : Bool
  deriving DecidableEq, Repr

inductive Step
  | dispatch (w : Nat) | sendEnd | accept | readFrame (w : Nat) | recvEnd | recvDone
  deriving DecidableEq, Repr

def fin (s : St) : St := if s.remaining = 0 ∧ s.endRecv then { s with doneSent := true } else s

def step (s : St) : Step → Option St
  | .dispatch w =>
    if s.toSend > 0 ∧ w < s.n then
      some { s with toSend := s.toSend - 1, buffered := s.buffered.set w (s.buffered[w]?.getD 0 + 1),
                    visible := max s.visible (w + 1) }
    else none
  | .sendEnd => if s.toSend = 0 ∧ s.endSent = false then some { s with endSent := true } else none
  | .accept => if s.accepted < s.visible then some { s with accepted := s.accepted + 1 } else none
  | .readFrame w =>
    if w < s.accepted ∧ s.buffered[w]?.getD 0 > 0 then
      some (fin { s with buffered := s.buffered.set w (s.buffered[w]?.getD 0 - 1), remaining := s.remaining - 1 })
    else none
  | .recvEnd => if s.endSent = true ∧ s.endRecv = false then some (fin { s with endRecv := true }) else none
  | .recvDone => if s.doneSent = true ∧ s.doneRecv = false then some { s with doneRecv := true, visible := s.n } else none

def init (n chunks : Nat) : St :=
  { n, toSend := chunks, buffered := List.replicate n 0, visible := 0, accepted := 0, remaining := chunks,
    endSent := false, endRecv := false, doneSent := false, doneRecv := false }

def final (s : St) : Prop := s.doneRecv = true

inductive Reachable (n c : Nat) : St → Prop
  | init : Reachable n c (init n c)
  | step {s s' a} : Reachable n c s → step s a = some s' → Reachable n c s'

end TV.ProtoLFix
