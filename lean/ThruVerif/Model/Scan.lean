import ThruVerif.Basic.Bytes
import ThruVerif.Model.Path
/-!
`ScanPaths` (pkg/manifest/manifest.go) over a flat, physical path table, and the top-level naming
shared with the sender's path resolver (`manifest.TopLevelNames`).
-/
namespace TV.Scan
open TV

/-! ### top-level names -/

def digitsRev : Nat → Nat → List UInt8
  | 0, _ => []
  | fuel+1, n => if n < 10 then [UInt8.ofNat (48 + n)] else UInt8.ofNat (48 + n % 10) :: digitsRev fuel (n / 10)

/-- `strconv.Itoa` for naturals -/
def decimal (n : Nat) : Bytes := (digitsRev (n + 1) n).reverse

/-- `fmt.Sprintf("%d_%s", ord, base)` -/
def cand (ord : Nat) (b : Bytes) : Bytes := decimal ord ++ 95 :: b

def countOf (b : Bytes) (bs : List Bytes) : Nat := (bs.filter (· == b)).length

/-- first ordinal above `ord` whose candidate is not taken (bounded search) -/
def pick (used : List Bytes) (b : Bytes) : Nat → Nat → Option Nat
  | 0, _ => none
  | fuel+1, ord => if used.contains (cand (ord + 1) b) then pick used b fuel (ord + 1) else some (ord + 1)

def nextOf (next : List (Bytes × Nat)) (b : Bytes) : Nat := ((next.find? (·.1 == b)).map (·.2)).getD 0

/-- the loop of `TopLevelNames` -/
def assign (all : List Bytes) : List Bytes → List Bytes → List (Bytes × Nat) → Option (List Bytes)
  | [], _, _ => some []
  | b :: rest, used, next =>
    if countOf b all = 1 then (assign all rest used next).map (b :: ·)
    else
      match pick used b (used.length + 1) (nextOf next b) with
      | none => none
      | some ord => (assign all rest (cand ord b :: used) ((b, ord) :: next)).map (cand ord b :: ·)

def singles (all : List Bytes) : List Bytes := all.filter fun b => countOf b all = 1

def topNames (bases : List Bytes) : Option (List Bytes) := assign bases bases (singles bases) []

/-! ### the scan over a path table -/

inductive Kind | file (size mtime : Nat) | dir (mtime : Nat) | link | other
  deriving DecidableEq, Repr

structure Entry where
  path : List Bytes          -- physical path elements
  kind : Kind
  deriving DecidableEq, Repr

/-- what `os.Stat` says about a selected path -/
inductive Top | file (size mtime : Nat) | dir (mtime : Nat) (walkable : Bool) | missing
  deriving DecidableEq, Repr

structure Sel where
  base : Bytes               -- filepath.Base of the absolute path ("current"/"root" already substituted)
  abs : List Bytes           -- physical path elements of the selection
  top : Top
  deriving DecidableEq, Repr

structure Item where
  rel : Bytes
  size : Nat
  mtime : Nat
  isDir : Bool
  deriving DecidableEq, Repr

def joinSlash : List Bytes → Bytes
  | [] => []
  | [s] => s
  | s :: ss => s ++ 47 :: joinSlash ss

def isStrictPrefix : List Bytes → List Bytes → Option (List Bytes)
  | [], [] => none
  | [], rest => some rest
  | _ :: _, [] => none
  | a :: as, b :: bs => if a == b then isStrictPrefix as bs else none

def itemsOf (table : List Entry) (name : Bytes) (s : Sel) : List Item :=
  match s.top with
  | .missing => []
  | .file size mtime => [⟨name, size, mtime, false⟩]
  | .dir mtime walkable =>
    ⟨name, 0, mtime, true⟩ ::
      (if walkable then
        table.filterMap fun e =>
          match isStrictPrefix s.abs e.path with
          | none => none
          | some suffix =>
            match e.kind with
            | .file size mt => some ⟨name ++ 47 :: joinSlash suffix, size, mt, false⟩
            | .dir mt => some ⟨name ++ 47 :: joinSlash suffix, 0, mt, true⟩
            | _ => none          -- links, devices, sockets, pipes are not listed
       else [])

def bytesLt : Bytes → Bytes → Bool
  | [], [] => false
  | [], _ :: _ => true
  | _ :: _, [] => false
  | a :: as, b :: bs => if a < b then true else if b < a then false else bytesLt as bs

def insertItem (x : Item) : List Item → List Item
  | [] => [x]
  | y :: ys => if bytesLt y.rel x.rel then y :: insertItem x ys else x :: y :: ys

/-- stable insertion sort by RelPath (what `sort.Slice` yields when all keys are distinct) -/
def sortItems (xs : List Item) : List Item := xs.foldr insertItem []

structure Manifest where
  items : List Item
  fileCount : Nat
  folderCount : Nat
  totalBytes : Nat
  deriving DecidableEq, Repr

def scanPaths (table : List Entry) (sels : List Sel) : Option Manifest :=
  match topNames (sels.map (·.base)) with
  | none => none
  | some names =>
    let items := sortItems ((names.zip sels).flatMap fun (n, s) => itemsOf table n s)
    some { items := items,
           fileCount := (items.filter (!·.isDir)).length,
           folderCount := (items.filter (·.isDir)).length,
           totalBytes := ((items.filter (!·.isDir)).map (·.size)).sum }

/-- the sender's resolver: first element of the manifest path -> selection, rest appended -/
def resolve (names : List Bytes) (sels : List Sel) (rel : Bytes) : Option (List Bytes) :=
  let parts := TV.Path.splitOn TV.Path.isSlash rel
  match parts with
  | [] => none
  | key :: rest =>
    match (names.zip sels).find? (fun (n, _) => n == key) with
    | none => none
    | some (_, s) => some (s.abs ++ rest)

end TV.Scan
