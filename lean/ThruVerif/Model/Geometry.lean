namespace TV.Geo

/-- Go: `uint32((fileSize + int64(chunkSize) - 1) / int64(chunkSize))`, guarded. Modelled on Nat inside the domain. -/
def chunkTotal (size chunk : Nat) : Nat :=
  if chunk = 0 then 0 else if size = 0 then 0 else (size + chunk - 1) / chunk

def lenAt (size chunk i : Nat) : Nat :=
  if chunk = 0 then 0 else
  if i * chunk ≥ size then 0 else
  if size - i * chunk < chunk then size - i * chunk else chunk

theorem total_bounds (size c : Nat) (hc : 0 < c) (hs : 0 < size) :
    (chunkTotal size c - 1) * c < size ∧ size ≤ chunkTotal size c * c ∧ 0 < chunkTotal size c := by
  have hne : c ≠ 0 := by omega
  have hsne : size ≠ 0 := by omega
  simp only [chunkTotal, hne, hsne, if_false]
  have h1 := Nat.div_add_mod (size + c - 1) c
  have h2 := Nat.mod_lt (size + c - 1) hc
  have hpos : 0 < (size + c - 1) / c := by
    apply Nat.div_pos <;> omega
  refine ⟨?_, ?_, hpos⟩
  · have : ((size + c - 1) / c - 1) * c = c * ((size + c - 1) / c) - c := by
      rw [Nat.sub_mul, Nat.one_mul, Nat.mul_comm]
    omega
  · have : (size + c - 1) / c * c = c * ((size + c - 1) / c) := Nat.mul_comm _ _
    omega

theorem lenAt_spec (size c i : Nat) (hc : 0 < c) (hi : i < chunkTotal size c) :
    0 < lenAt size c i ∧ lenAt size c i ≤ c ∧
    i * c + lenAt size c i = (if i + 1 < chunkTotal size c then (i + 1) * c else size) := by
  have hs : 0 < size := by
    rcases Nat.eq_zero_or_pos size with h | h
    · simp [chunkTotal, h] at hi
    · exact h
  obtain ⟨hlo, hhi, _⟩ := total_bounds size c hc hs
  have hne : c ≠ 0 := by omega
  -- i*c ≤ (total-1)*c < size
  have hic : i * c ≤ (chunkTotal size c - 1) * c := Nat.mul_le_mul_right c (by omega)
  have hlt : i * c < size := by omega
  unfold lenAt
  simp only [hne, if_false]
  have hnot : ¬ (i * c ≥ size) := by omega
  simp only [hnot, if_false]
  split
  · -- short last chunk: must be last
    rename_i hshort
    refine ⟨by omega, by omega, ?_⟩
    split
    · rename_i hnext
      -- (i+1)*c ≤ (total-1)*c < size contradicts short
      have : (i + 1) * c ≤ (chunkTotal size c - 1) * c := Nat.mul_le_mul_right c (by omega)
      have e : (i + 1) * c = i * c + c := by rw [Nat.add_mul, Nat.one_mul]
      omega
    · omega
  · rename_i hfull
    refine ⟨hc, Nat.le_refl _, ?_⟩
    have e : (i + 1) * c = i * c + c := by rw [Nat.add_mul, Nat.one_mul]
    split
    · omega
    · rename_i hlast
      -- i + 1 = total, so size ≤ total*c = (i+1)*c
      have hi1 : i + 1 = chunkTotal size c := by omega
      rw [← hi1] at hhi
      omega

theorem lenAt_oob (size c i : Nat) (hc : 0 < c) (hi : chunkTotal size c ≤ i) : lenAt size c i = 0 := by
  have hne : c ≠ 0 := by omega
  unfold lenAt
  simp only [hne, if_false]
  rcases Nat.eq_zero_or_pos size with h | hs
  · simp [h]
  · obtain ⟨_, hhi, _⟩ := total_bounds size c hc hs
    have : chunkTotal size c * c ≤ i * c := Nat.mul_le_mul_right c hi
    have : i * c ≥ size := by omega
    simp [this]

/-- prefix sums: the first k chunks cover exactly [0, min(k*c, size)). -/
theorem sum_prefix (size c : Nat) (hc : 0 < c) :
    ∀ k, k ≤ chunkTotal size c →
      ((List.range k).map (lenAt size c)).sum = (if k < chunkTotal size c then k * c else size) := by
  intro k
  induction k with
  | zero =>
    intro _
    simp
    intro h
    -- total = 0 → size = 0
    rcases Nat.eq_zero_or_pos size with hs | hs
    · exact hs.symm
    · have := (total_bounds size c hc hs).2.2; omega
  | succ k ih =>
    intro hk
    have hk' : k < chunkTotal size c := by omega
    rw [List.range_succ, List.map_append, List.sum_append, ih (by omega)]
    simp only [hk', if_true, List.map_cons, List.map_nil, List.sum_cons, List.sum_nil, Nat.add_zero]
    exact (lenAt_spec size c k hc hk').2.2

theorem tiles (size c : Nat) (hc : 0 < c) :
    ((List.range (chunkTotal size c)).map (lenAt size c)).sum = size := by
  have := sum_prefix size c hc (chunkTotal size c) (Nat.le_refl _)
  simpa using this

end TV.Geo
