import ThruVerif.Model.ProtoLM
/-!
Liveness abstraction of the multi-stream transfer for a whole manifest over several connections: `k` files over `n` data
streams spread round-robin over `c` connections (`multiConn.OpenStream`: the `g`-th stream opened - the control stream is `g = 0`,
the data streams are `g = 1 .. n` - lives on connection `g % c` and is the `g / c`-th stream of that connection).
`Model/ProtoLM` is the one-connection instance.

* QUIC visibility is per connection: a stream can be accepted only after a frame was written on it or on a later stream of the
  same connection; each connection hands its streams out in order (`visible`, `accepted` count streams per connection);
* the receiver's `multiConn.AcceptStream` takes the control stream from connection 0 first (initial state) and afterwards whatever
  any connection's accept loop delivers;
* resume: besides the chunks the receiver waits for (`toSend`, `remaining`) a file may have chunks that travel although the
  receiver already has them (`toSendU`: marked in its bitmap but at or above `forceSendFrom`, and the verification re-send); the
  receiver writes or - once the file is finalised - drains them without counting;
* everything else as in `Model/ProtoLM`.
-/
namespace TV.ProtoLMC

open TV.ProtoLM (upd sumN b2n allB)

structure St where
  k : Nat
  n : Nat
  toSend : Nat → Nat
  remaining : Nat → Nat
  buf : Nat → Nat → Nat          -- stream -> file -> frames in flight
  toSendU : Nat → Nat            -- per file: chunks still to hand out that the receiver does not wait for (marked in its resume
                                 -- bitmap but at or above forceSendFrom, or the verification re-send)
  bufU : Nat → Nat → Nat         -- such frames in flight
  c : Nat
  visible : Nat → Nat           -- connection -> streams revealed to the receiver
  accepted : Nat → Nat          -- connection -> streams the receiver took
  endSent : Nat → Bool
  endRecv : Nat → Bool
  doneSent : Nat → Bool
  doneRecv : Nat → Bool
  endAllSent : Bool
  endAllRecv : Bool

inductive Step
  | dispatch (f w : Nat)
  | dispatchU (f w : Nat)
  | readFrameU (w f : Nat)
  | sendEnd (f : Nat)
  | accept (j : Nat)
  | readFrame (w f : Nat)
  | recvEnd (f : Nat)
  | recvDone (f : Nat)
  | sendEndAll
  | recvEndAll

/-- `finalizeFile` when the last frame and `FileEnd` are both in -/
def fin (s : St) (f : Nat) : St :=
  if s.remaining f = 0 ∧ s.endRecv f = true then { s with doneSent := upd s.doneSent f true } else s

/-- streams (control stream included) of connection `j`: the `g ≤ n` with `g % c = j` -/
def cnt (n c : Nat) (j : Nat) : Nat := (n + c - j) / c

def step (s : St) : Step → Option St
  | .dispatch f w =>
    if f < s.k ∧ 1 ≤ w ∧ w ≤ s.n ∧ s.toSend f > 0 then
      some { s with toSend := upd s.toSend f (s.toSend f - 1), buf := upd s.buf w (upd (s.buf w) f (s.buf w f + 1)),
                    visible := upd s.visible (w % s.c) (max (s.visible (w % s.c)) (w / s.c + 1)) }
    else none
  | .dispatchU f w =>
    if f < s.k ∧ 1 ≤ w ∧ w ≤ s.n ∧ s.toSendU f > 0 then
      some { s with toSendU := upd s.toSendU f (s.toSendU f - 1), bufU := upd s.bufU w (upd (s.bufU w) f (s.bufU w f + 1)),
                    visible := upd s.visible (w % s.c) (max (s.visible (w % s.c)) (w / s.c + 1)) }
    else none
  | .readFrameU w f =>
    -- written over a chunk that is already there, or - when the file is already finalised - drained; either way nothing is counted
    if f < s.k ∧ w / s.c < s.accepted (w % s.c) ∧ s.bufU w f > 0 then
      some { s with bufU := upd s.bufU w (upd (s.bufU w) f (s.bufU w f - 1)) }
    else none
  | .sendEnd f =>
    if f < s.k ∧ s.toSend f = 0 ∧ s.toSendU f = 0 ∧ s.endSent f = false then some { s with endSent := upd s.endSent f true } else none
  | .accept j => if j < s.c ∧ s.accepted j < s.visible j then some { s with accepted := upd s.accepted j (s.accepted j + 1) } else none
  | .readFrame w f =>
    if f < s.k ∧ w / s.c < s.accepted (w % s.c) ∧ s.buf w f > 0 then
      some (fin { s with buf := upd s.buf w (upd (s.buf w) f (s.buf w f - 1)), remaining := upd s.remaining f (s.remaining f - 1) } f)
    else none
  | .recvEnd f =>
    if f < s.k ∧ s.endSent f = true ∧ s.endRecv f = false then some (fin { s with endRecv := upd s.endRecv f true } f) else none
  | .recvDone f =>
    if f < s.k ∧ s.doneSent f = true ∧ s.doneRecv f = false then some { s with doneRecv := upd s.doneRecv f true } else none
  | .sendEndAll =>
    if allB s.k s.doneRecv ∧ s.endAllSent = false then some { s with endAllSent := true, visible := cnt s.n s.c } else none
  | .recvEndAll =>
    if s.endAllSent = true ∧ s.endAllRecv = false then some { s with endAllRecv := true } else none

/-- `chunks f` chunks per file the receiver waits for, `extra f` further ones it does not wait for; `n` streams, `c` connections -/
def init (k n c : Nat) (chunks extra : Nat → Nat) : St :=
  { k, n, c, toSend := chunks, remaining := chunks, buf := fun _ _ => 0, toSendU := extra, bufU := fun _ _ => 0,
    visible := fun j => if j = 0 then 1 else 0, accepted := fun j => if j = 0 then 1 else 0,
    endSent := fun _ => false, endRecv := fun _ => false, doneSent := fun _ => false, doneRecv := fun _ => false,
    endAllSent := false, endAllRecv := false }

def final (s : St) : Prop := s.endAllRecv = true

inductive Reachable (k n c : Nat) (chunks extra : Nat → Nat) : St → Prop
  | init : Reachable k n c chunks extra (init k n c chunks extra)
  | step {s s' : St} (a : Step) : Reachable k n c chunks extra s → step s a = some s' → Reachable k n c chunks extra s'

/-- frames of file `f` in flight on all streams -/
def inflight (s : St) (f : Nat) : Nat := sumN (s.n + 1) (fun w => s.buf w f)

def inflightU (s : St) (f : Nat) : Nat := sumN (s.n + 1) (fun w => s.bufU w f)

def measure (s : St) : Nat :=
  sumN s.k (fun f => 2 * s.toSend f + b2n (!s.endSent f) + b2n (!s.endRecv f) + b2n (!s.doneRecv f)) +
  sumN s.k (fun f => inflight s f) + sumN s.k (fun f => 2 * s.toSendU f) + sumN s.k (fun f => inflightU s f) + sumN s.c (fun j => cnt s.n s.c j - s.accepted j) + b2n (!s.endAllSent) + b2n (!s.endAllRecv)

end TV.ProtoLMC
