import ThruVerif.Model.Codec
/-!
Resume sidecar (`internal/transfer/sidecar.go`): `Flush` serialisation and `LoadSidecar` parsing,
`BitmapFromBytes`' length rule, the identity test of `LoadOrCreateSidecarWithFallback`.
-/
namespace TV.Sidecar
open TV TV.Codec

/-- CRC-32C (Castagnoli), reflected, bit by bit -/
def crcBit (c : Nat) : Nat := if c % 2 = 1 then (c / 2) ^^^ 0x82F63B78 else c / 2
def crcByte (c : Nat) (b : UInt8) : Nat :=
  crcBit (crcBit (crcBit (crcBit (crcBit (crcBit (crcBit (crcBit (c ^^^ b.toNat))))))))
def crc32c (bs : Bytes) : Nat := (bs.foldl crcByte 0xFFFFFFFF) ^^^ 0xFFFFFFFF

structure Sc where
  fileID : Bytes
  fileSize : Nat
  chunkSize : Nat
  total : Nat
  bitmap : Bytes
  deriving DecidableEq, Repr

/-- fields after the magic, in `Flush` order, ending with the checksum -/
def layout : List Fld := [.uint 2, .uint 4, .uint 8, .uint 4, .lenBytes 2 none, .lenBytes 4 none, .uint 4]

def body (magic : Bytes) (version : Nat) (s : Sc) : Bytes :=
  magic ++ encL (layout.take 6) [.n version, .n s.chunkSize, .n s.fileSize, .n s.total, .bs s.fileID, .bs s.bitmap]

/-- `Sidecar.Flush`: body followed by its CRC32C -/
def serialize (magic : Bytes) (version : Nat) (s : Sc) : Bytes :=
  let b := body magic version s
  b ++ putBE 4 (crc32c b)

/-- no bit set at an index ≥ `bits` in the last byte -/
def noStrayBits (bm : Bytes) (bits : Nat) : Bool :=
  if bits % 8 = 0 then true else
  match bm.getLast? with
  | none => true
  | some b => b.toNat / 2 ^ (bits % 8) == 0

/-- `BitmapFromBytes(data, bits)` -/
def bitmapOk (bm : Bytes) (bits : Nat) : Bool :=
  bm.length == (bits + 7) / 8 && noStrayBits bm bits

inductive LoadErr | tooSmall | magic | io | version | checksum | bitmap
  deriving DecidableEq, Repr

/-- `LoadSidecar` on the file's bytes -/
def parse (magic : Bytes) (version : Nat) (data : Bytes) : Except LoadErr Sc :=
  if data.length < 6 then .error .tooSmall
  else if data.take 4 ≠ magic then .error .magic
  else
    match decL layout (data.drop 4) with
    | .error _ => .error .io
    | .ok ([.n v, .n cs, .n fs, .n tot, .bs fid, .bs bm, .n crc], _) =>
      if v ≠ version then .error .version
      else if crc32c (data.take (data.length - 4)) ≠ crc then .error .checksum
      else if !bitmapOk bm tot then .error .bitmap
      else .ok { fileID := fid, fileSize := fs, chunkSize := cs, total := tot, bitmap := bm }
    | .ok _ => .error .io

/-- what `loadValid` (inside LoadOrCreateSidecarWithFallback) decides for one candidate file:
    `some s` = use it, `none` = ignore (and delete when it parsed but belongs to something else) -/
def loadValid (magic : Bytes) (version : Nat) (data : Option Bytes) (fileID : Bytes) (fileSize chunkSize : Nat) : Option Sc :=
  match data with
  | none => none
  | some d =>
    match parse magic version d with
    | .error _ => none
    | .ok s => if s.chunkSize ≠ chunkSize ∨ s.fileSize ≠ fileSize ∨ s.fileID ≠ fileID then none else some s

def getBit (bm : Bytes) (i : Nat) : Bool := (bm[i / 8]?.getD 0).toNat / 2 ^ (i % 8) % 2 == 1

end TV.Sidecar
