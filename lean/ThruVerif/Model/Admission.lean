/-!
Host admission (`SnapshotSender` in internal/app/snapshot_sender.go): `handlePeerJoined`,
`handleManifestAccept` + `maybeStartTransfers`, `handlePeerLeft`, the tail of `runTransfer`, `cleanup`.
Everything the real code does under `s.mu` in one handler is one event here. `running` is ghost state:
transfer functions that were started and have not returned, with the cancellation flag of their context.
A slot is identified by its generation number (pointer identity of `*transferSlot` in the code).
-/
namespace TV.Admission

inductive Status | joined | queued | transferring | done | failed
  deriving DecidableEq, Repr

structure Run where
  peer : Nat
  gen : Nat
  cancelled : Bool
  deriving DecidableEq, Repr

structure St where
  status : Nat → Option Status
  lastSeen : Nat → Nat
  queue : List Nat
  active : List (Nat × Nat)      -- (peer, generation of its slot)
  running : List Run             -- ghost
  nextGen : Nat
  max : Nat
  ttl : Nat

def init (max ttl : Nat) : St :=
  { status := fun _ => none, lastSeen := fun _ => 0, queue := [], active := [], running := [],
    nextGen := 0, max := max, ttl := ttl }

def upd {α : Type} (f : Nat → α) (k : Nat) (v : α) : Nat → α := fun x => if x = k then v else f x

/-- `maybeStartTransfers`: pop queued peers while a slot is free (fuel = queue length) -/
def maybeStart (now : Nat) : Nat → St → St
  | 0, s => s
  | f+1, s =>
    if s.active.length ≥ s.max then s else
    match s.queue with
    | [] => s
    | p :: q =>
      match s.status p with
      | none => maybeStart now f { s with queue := q }
      | some .transferring => maybeStart now f { s with queue := q }
      | some _ =>
        maybeStart now f { s with
          queue := q
          status := upd s.status p (some .transferring)
          lastSeen := upd s.lastSeen p now
          active := s.active ++ [(p, s.nextGen)]
          running := s.running ++ [⟨p, s.nextGen, false⟩]
          nextGen := s.nextGen + 1 }

inductive Ev
  | joined (p now : Nat)
  | accept (p now : Nat)
  | left (p now : Nat)
  | finished (g : Nat) (ok : Bool) (now : Nat)   -- the transfer function of generation g returns
  | tick (now : Nat)
  deriving DecidableEq, Repr

def cancelGen (g : Nat) (rs : List Run) : List Run :=
  rs.map fun r => if r.gen = g then { r with cancelled := true } else r

def step (s : St) : Ev → St
  | .joined p now =>
    -- a queued or transferring peer keeps its status on a repeated join
    let st := match s.status p with
      | some .queued => some .queued
      | some .transferring => some .transferring
      | _ => some .joined
    { s with status := upd s.status p st, lastSeen := upd s.lastSeen p now }
  | .accept p now =>
    match s.status p with
    | some .transferring =>
      let s1 := { s with lastSeen := upd s.lastSeen p now }
      maybeStart now s1.queue.length s1
    | _ =>
      let s1 := { s with
        status := upd s.status p (some .queued)
        lastSeen := upd s.lastSeen p now
        queue := if p ∈ s.queue then s.queue else s.queue ++ [p] }
      maybeStart now s1.queue.length s1
  | .left p now =>
    let st := match s.status p with
      | none => none
      | some .done => some .done
      | some _ => some .failed
    let s1 := { s with
      status := upd s.status p st
      lastSeen := match s.status p with
        | none => s.lastSeen
        | some .done => s.lastSeen
        | some _ => upd s.lastSeen p now
      running := match s.active.find? (·.1 = p) with
        | some (_, g) => cancelGen g s.running
        | none => s.running
      active := s.active.filter (·.1 ≠ p)
      queue := s.queue.filter (· ≠ p) }
    maybeStart now s1.queue.length s1
  | .finished g ok now =>
    match s.running.find? (·.gen = g) with
    | none => s
    | some r =>
      let running := s.running.filter (·.gen ≠ g)
      if (r.peer, g) ∈ s.active then
        let s1 := { s with
          running := running
          status := match s.status r.peer with
            | none => s.status
            | some _ => upd s.status r.peer (some (if ok then .done else .failed))
          lastSeen := match s.status r.peer with
            | none => s.lastSeen
            | some _ => upd s.lastSeen r.peer now
          active := s.active.filter (· ≠ (r.peer, g)) }
        maybeStart now s1.queue.length s1
      else
        -- stale: the slot of this transfer was already released (peer left, possibly re-admitted)
        let s1 := { s with running := running }
        maybeStart now s1.queue.length s1
  | .tick now =>
    -- a receiver that is being served or is waiting for a slot is not idle, however long ago it last spoke
    let expired : Nat → Bool := fun p =>
      match s.status p with
      | none => false
      | some .transferring => false
      | some .queued => false
      | some _ => decide (now - s.lastSeen p > s.ttl)
    { s with
      status := fun p => if expired p then none else s.status p
      queue := s.queue.filter (fun p => !expired p) }

/-- the clean-up tick as it was: everybody but the receivers being served expires, also those waiting in the queue -/
def stepOld (s : St) : Ev → St
  | .tick now =>
    let expired : Nat → Bool := fun p =>
      match s.status p with
      | none => false
      | some .transferring => false
      | some _ => decide (now - s.lastSeen p > s.ttl)
    { s with
      status := fun p => if expired p then none else s.status p
      queue := s.queue.filter (fun p => !expired p) }
  | e => step s e

def runOld (s : St) : List Ev → St
  | [] => s
  | e :: es => runOld (stepOld s e) es

def run (s : St) : List Ev → St
  | [] => s
  | e :: es => run (step s e) es

end TV.Admission
