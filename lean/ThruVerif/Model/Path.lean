import ThruVerif.Basic.Bytes
/-!
Byte-level path model (Unix): Go strings are byte strings, `/` = 47, `\` = 92, `.` = 46.
`clean` is the element-stack formulation of Go's `filepath.Clean` (drop empty and `.` elements; `..`
pops a non-`..` element, is dropped at the root of a rooted path, is kept otherwise); `join` is
`filepath.Join`. `validateRelPath`, `validateFilename`, `validateManifest` follow internal/transfer.
`recvEffects` lists every path `RecvManifestMultiStream` hands to MkdirAll / OpenFile / Truncate /
ReadFile / WriteFile / Rename / Remove.
-/
namespace TV.Path
open TV

def slash : UInt8 := 47
def bslash : UInt8 := 92
def dot : UInt8 := 46

/-- first element of the split on a separator predicate -/
def hd (p : UInt8 → Bool) : Bytes → Bytes
  | [] => []
  | b :: bs => if p b then [] else b :: hd p bs

/-- remaining elements of the split -/
def tl (p : UInt8 → Bool) : Bytes → List Bytes
  | [] => []
  | b :: bs => if p b then hd p bs :: tl p bs else tl p bs

/-- split on a separator predicate, keeping empty segments (`strings.Split` on one-byte separators) -/
def splitOn (p : UInt8 → Bool) (l : Bytes) : List Bytes := hd p l :: tl p l

def isSep2 (b : UInt8) : Bool := b == slash || b == bslash
def isSlash (b : UInt8) : Bool := b == slash

def dotSeg : Bytes := [dot]
def dotdot : Bytes := [dot, dot]

/-- some element (split on `/` or `\`) equals `..` -/
def hasParentSeg (p : Bytes) : Bool := (splitOn isSep2 p).any (· == dotdot)

def isAbs (p : Bytes) : Bool := match p with | b :: _ => b == slash | [] => false

inductive PathErr | tooLong | invalid deriving Repr, DecidableEq

/-- `validateRelPath` -/
def validateRelPath (maxLen : Nat) (p : Bytes) : Option PathErr :=
  if p.length > maxLen then some .tooLong
  else if hasParentSeg p then some .invalid
  else if isAbs p then some .invalid
  else if p = [] then some .invalid
  else none

/-- `validateFilename`: a single path element -/
def validateFilename (maxLen : Nat) (p : Bytes) : Option PathErr :=
  if p = [] then some .invalid
  else if p.any isSep2 then some .invalid
  else if p = dotSeg ∨ p = dotdot then some .invalid
  else if p.length > maxLen then some .tooLong
  else none

/-! ### Clean / Join on element stacks -/

def segs (p : Bytes) : List Bytes := splitOn isSlash p

/-- one step of `Clean` on the element stack -/
def push (rooted : Bool) (stk : List Bytes) (s : Bytes) : List Bytes :=
  if s = [] ∨ s = dotSeg then stk
  else if s = dotdot then
    match stk.getLast? with
    | some t => if t = dotdot then stk ++ [dotdot] else stk.dropLast
    | none => if rooted then stk else stk ++ [dotdot]
  else stk ++ [s]

def pushAll (rooted : Bool) (stk : List Bytes) (ss : List Bytes) : List Bytes := ss.foldl (push rooted) stk

def stack (p : Bytes) : List Bytes := pushAll (isAbs p) [] (segs p)

def intercalate : List Bytes → Bytes
  | [] => []
  | [s] => s
  | s :: ss => s ++ slash :: intercalate ss

def render (rooted : Bool) (stk : List Bytes) : Bytes :=
  if rooted then slash :: intercalate stk
  else if stk = [] then dotSeg else intercalate stk

/-- `filepath.Clean` -/
def clean (p : Bytes) : Bytes := render (isAbs p) (stack p)

/-- `filepath.Join(a, b)`: empty elements are ignored, the rest is joined with `/` and cleaned -/
def join (a b : Bytes) : Bytes :=
  if a = [] then (if b = [] then [] else clean b)
  else clean (a ++ slash :: b)

/-- everything up to and including the last `/` -/
def uptoLastSlash : Bytes → Bytes
  | [] => []
  | b :: bs =>
    let r := uptoLastSlash bs
    if r ≠ [] then b :: r else if b == slash then [b] else []

/-- `filepath.Dir`: Clean of the part before the last separator -/
def dirOf (p : Bytes) : Bytes :=
  let d := uptoLastSlash p
  if d = [] then dotSeg else clean d

/-- FNV-1a 64 (hash/fnv.New64a) -/
def fnv1a64 (bs : Bytes) : Nat :=
  bs.foldl (fun h b => ((h ^^^ b.toNat) * 1099511628211) % 2 ^ 64) 14695981039346656037

def hexDigit (n : Nat) : UInt8 := if n < 10 then UInt8.ofNat (48 + n) else UInt8.ofNat (87 + n)

/-- `fmt.Sprintf("%x", n)` -/
def hexOf : Nat → Nat → Bytes
  | 0, _ => []
  | fuel+1, n => if n < 16 then [hexDigit n] else hexOf fuel (n / 16) ++ [hexDigit (n % 16)]

/-- `sidecarIdentifier`: the item id, or the hex FNV-1a hash of its path -/
def sidecarIdent (id rel : Bytes) : Bytes := if id ≠ [] then id else hexOf 17 (fnv1a64 rel)

/-- `base` is lexically inside (or equal to) `dir`: element-wise prefix of the cleaned stacks -/
def Within (dir p : List Bytes) : Prop := ∃ ext, p = dir ++ ext

def NoDotDot (ss : List Bytes) : Prop := ∀ s ∈ ss, s ≠ dotdot

/-- Pushing elements none of which is `..` only ever extends the stack. -/
theorem pushAll_extends (rooted : Bool) (ss : List Bytes) (stk : List Bytes) (h : NoDotDot ss) :
    ∃ ext, pushAll rooted stk ss = stk ++ ext ∧ NoDotDot ext := by
  induction ss generalizing stk with
  | nil => exact ⟨[], by simp [pushAll], by intro s hs; cases hs⟩
  | cons s ss ih =>
    have hs : s ≠ dotdot := h s (by simp)
    have hss : NoDotDot ss := fun t ht => h t (by simp [ht])
    simp only [pushAll, List.foldl_cons]
    by_cases h0 : s = [] ∨ s = dotSeg
    · have : push rooted stk s = stk := by simp [push, h0]
      rw [this]
      exact ih stk hss
    · have : push rooted stk s = stk ++ [s] := by simp [push, h0, hs]
      rw [this]
      obtain ⟨ext, he, hn⟩ := ih (stk ++ [s]) hss
      refine ⟨s :: ext, ?_, ?_⟩
      · simp only [pushAll] at he; rw [he]; simp
      · intro t ht
        cases ht with
        | head => exact hs
        | tail _ h' => exact hn t h'

theorem hd_append (p : UInt8 → Bool) (a b : Bytes) (c : UInt8) (hc : p c = true) :
    hd p (a ++ c :: b) = hd p a := by
  induction a with
  | nil => simp [hd, hc]
  | cons x xs ih => simp only [List.cons_append, hd, ih]

theorem tl_append (p : UInt8 → Bool) (a b : Bytes) (c : UInt8) (hc : p c = true) :
    tl p (a ++ c :: b) = tl p a ++ splitOn p b := by
  induction a with
  | nil => simp [tl, hc, splitOn]
  | cons x xs ih =>
    simp only [List.cons_append, tl, ih, hd_append p xs b c hc]
    split <;> simp

/-- splitting `a ++ sep :: b` = splitting `a` followed by splitting `b` -/
theorem splitOn_append (p : UInt8 → Bool) (a b : Bytes) (c : UInt8) (hc : p c = true) :
    splitOn p (a ++ c :: b) = splitOn p a ++ splitOn p b := by
  simp [splitOn, hd_append p a b c hc, tl_append p a b c hc]

theorem sep2_of_slash (b : UInt8) (h : isSlash b = true) : isSep2 b = true := by
  simp [isSep2, isSlash] at h ⊢; simp [h]

/-- a first `/`-element without `/` or `\` in it is also the first element of the two-separator split -/
theorem hd_refine (l : Bytes) (h : ∀ b ∈ hd isSlash l, isSep2 b = false) : hd isSep2 l = hd isSlash l := by
  induction l with
  | nil => rfl
  | cons b bs ih =>
    simp only [hd] at h ⊢
    by_cases hb : isSlash b = true
    · simp [hb, sep2_of_slash b hb]
    · simp only [hb, Bool.false_eq_true, if_false] at h ⊢
      have hb2 : isSep2 b = false := h b (by simp)
      simp only [hb2, Bool.false_eq_true, if_false]
      rw [ih (fun x hx => h x (by simp [hx]))]

theorem dotdot_no_sep : ∀ b ∈ dotdot, isSep2 b = false := by decide

theorem tl_refine (l : Bytes) (h : dotdot ∈ tl isSlash l) : dotdot ∈ tl isSep2 l := by
  induction l with
  | nil => simp [tl] at h
  | cons b bs ih =>
    simp only [tl] at h ⊢
    by_cases hb : isSlash b = true
    · simp only [hb, sep2_of_slash b hb, if_true, List.mem_cons] at h ⊢
      rcases h with h | h
      · left
        rw [hd_refine bs (by rw [← h]; exact dotdot_no_sep)]
        exact h
      · right; exact ih h
    · simp only [hb, Bool.false_eq_true, if_false] at h
      have := ih h
      split
      · simp [this]
      · exact this

/-- **a path that `validateRelPath` accepts has no `..` element** when split on `/` -/
theorem splitOn_slash_refines (l : Bytes) (h : dotdot ∈ splitOn isSlash l) : dotdot ∈ splitOn isSep2 l := by
  simp only [splitOn, List.mem_cons] at h ⊢
  rcases h with h | h
  · left
    rw [hd_refine l (by rw [← h]; exact dotdot_no_sep)]
    exact h
  · right; exact tl_refine l h

theorem noParent_noDotDot (p : Bytes) (h : hasParentSeg p = false) : NoDotDot (segs p) := by
  intro s hs he
  subst he
  have := splitOn_slash_refines p hs
  simp only [hasParentSeg, List.any_eq_false, beq_iff_eq] at h
  exact h dotdot this rfl

theorem validate_noDotDot (maxLen : Nat) (p : Bytes) (h : validateRelPath maxLen p = none) : NoDotDot (segs p) := by
  apply noParent_noDotDot
  simp only [validateRelPath] at h
  split at h
  · cases h
  · split at h
    · cases h
    · rename_i hn; simpa using hn

/-! ### what the receiver touches -/

/-- `stack (a ++ "/" ++ b)` for a non-empty `a` = push the elements of `b` onto the stack of `a` -/
theorem stack_join (a b : Bytes) (ha : a ≠ []) :
    stack (a ++ slash :: b) = pushAll (isAbs a) (stack a) (segs b) := by
  have habs : isAbs (a ++ slash :: b) = isAbs a := by
    cases a with
    | nil => exact absurd rfl ha
    | cons x xs => rfl
  simp only [stack, segs, habs, splitOn_append isSlash a b slash (by decide), pushAll, List.foldl_append]

/-- **Within_join.** Joining a relative path without `..` elements onto a directory stays inside it. -/
theorem within_join (a b : Bytes) (ha : a ≠ []) (hb : NoDotDot (segs b)) :
    Within (stack a) (stack (a ++ slash :: b)) := by
  rw [stack_join a b ha]
  obtain ⟨ext, he, _⟩ := pushAll_extends (isAbs a) (segs b) (stack a) hb
  exact ⟨ext, he⟩

theorem within_trans {a b c : List Bytes} (h1 : Within a b) (h2 : Within b c) : Within a c := by
  obtain ⟨e1, rfl⟩ := h1
  obtain ⟨e2, rfl⟩ := h2
  exact ⟨e1 ++ e2, by simp⟩

/-! ### manifest validation and the receiver's effect paths -/

structure Item where
  rel : Bytes
  isDir : Bool
  id : Bytes
  size : Nat
  deriving DecidableEq, Repr

structure Manifest where
  root : Bytes
  items : List Item
  deriving DecidableEq, Repr

/-- `ValidateManifest` (receiver side, before anything is created): the root has no `..` element, every
    item path is a safe relative path, every non-empty id is a single path element -/
def validateManifest (maxPath maxName : Nat) (m : Manifest) : Bool :=
  !hasParentSeg m.root &&
  m.items.all fun it =>
    (validateRelPath maxPath it.rel).isNone && (it.id = [] || (validateFilename maxName it.id).isNone)

/-- the path expression the receiver computes for an entry below its base directory:
    `filepath.Join(filepath.Join(out, root), rel)` as one concatenation (nested Join = one Clean;
    that identity is part of the filepath correspondence) -/
def under (out root rel : Bytes) : Bytes := (out ++ slash :: root) ++ slash :: rel

/-- elements a relative path contributes (`.` and empty dropped; no `..` after validation) -/
def relStack (p : Bytes) : List Bytes := pushAll true [] (segs p)

def prefixes {α : Type} : List α → List (List α)
  | [] => [[]]
  | x :: xs => [] :: (prefixes xs).map (x :: ·)

structure Begin where
  rel : Bytes
  size : Nat
  chunk : Nat
  deriving DecidableEq, Repr

/-- everything `RecvManifestMultiStream` creates below the output directory (as element stacks relative
    to it), for a manifest that passed validation; `none` = rejected before any effect.
    FileBegin records are handled in order until the first one that is refused. -/
def recvCreates (maxPath maxName : Nat) (sidecarDir suffix : Bytes) (noRoot resume : Bool)
    (m : Manifest) (begins : List Begin) : Option (List (List Bytes)) :=
  if !validateManifest maxPath maxName m then none else
  let base := if noRoot then [] else relStack m.root
  let dirs := (m.items.filter (·.isDir)).map fun it => base ++ relStack it.rel
  let rec files (bs : List Begin) (acc : List (List Bytes)) : List (List Bytes) :=
    match bs with
    | [] => acc
    | b :: rest =>
      if (validateRelPath maxPath b.rel).isSome then acc else
      -- `itemByRelPath[rel] = item` over the non-directory items in manifest order: a repeated path keeps its last entry
      match (m.items.filter (fun it => !it.isDir && it.rel == b.rel)).getLast? with
      | none => acc
      | some it =>
        if it.size ≠ b.size then acc else
        let f := base ++ relStack b.rel
        let side := if resume && b.chunk > 0 && (it.id ≠ [] || b.size > 0)
          then [base ++ [sidecarDir], base ++ [sidecarDir, sidecarIdent it.id b.rel ++ suffix]] else []
        files rest (acc ++ [f] ++ side)
  let all := [base] ++ dirs ++ files begins []
  some ((all.flatMap prefixes).eraseDups)

end TV.Path
