import ThruVerif.Basic.Bytes
/-!
Byte-level path model (Unix): Go strings are byte strings, `/` = 47, `\` = 92, `.` = 46.
`validateRelPath` follows internal/transfer/manifestproto.go.
-/
namespace TV.Path
open TV

def slash : UInt8 := 47
def bslash : UInt8 := 92
def dot : UInt8 := 46

/-- split on a separator predicate, keeping empty segments -/
def splitOn (p : UInt8 → Bool) : Bytes → List Bytes
  | [] => [[]]
  | b :: bs =>
    match splitOn p bs with
    | [] => [[]]            -- unreachable
    | s :: ss => if p b then [] :: s :: ss else (b :: s) :: ss

def isSep2 (b : UInt8) : Bool := b == slash || b == bslash
def isSlash (b : UInt8) : Bool := b == slash

def dotdot : Bytes := [dot, dot]

/-- some element (split on `/` or `\`) equals `..` -/
def hasParentSeg (p : Bytes) : Bool := (splitOn isSep2 p).any (· == dotdot)

def isAbs (p : Bytes) : Bool := match p with | b :: _ => b == slash | [] => false

inductive PathErr | tooLong | invalid deriving Repr, DecidableEq

/-- `validateRelPath` -/
def validateRelPath (maxLen : Nat) (p : Bytes) : Option PathErr :=
  if p.length > maxLen then some .tooLong
  else if hasParentSeg p then some .invalid
  else if isAbs p then some .invalid
  else if p = [] then some .invalid
  else none

end TV.Path
