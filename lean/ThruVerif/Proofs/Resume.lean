import ThruVerif.Model.Resume

/-! Lemmas about the resume negotiation model (`Model/Resume`). -/
namespace TV.Resume

theorem highest_some {b : List Bool} {n h : Nat} (e : highest b n = some h) :
    bit b h = true ∧ h < n ∧ ∀ i, h < i → i < n → bit b i = false := by
  induction n with
  | zero => simp [highest] at e
  | succ n ih =>
    simp only [highest] at e
    split at e
    · rename_i hb
      injection e with e; subst e
      exact ⟨hb, Nat.lt_succ_self _, fun i h1 h2 => by omega⟩
    · rename_i hb
      obtain ⟨h1, h2, h3⟩ := ih e
      refine ⟨h1, by omega, ?_⟩
      intro i hi hin
      by_cases hin' : i = n
      · subst hin'; simpa using hb
      · exact h3 i hi (by omega)

theorem highest_none {b : List Bool} {n : Nat} (e : highest b n = none) : ∀ i, i < n → bit b i = false := by
  induction n with
  | zero => intro i hi; cases hi
  | succ n ih =>
    simp only [highest] at e
    split at e
    · cases e
    · rename_i hb
      intro i hi
      by_cases hin : i = n
      · subst hin; simpa using hb
      · exact ih e i (by omega)

theorem countSet_le (b : List Bool) : countSet b ≤ b.length := List.length_filter_le _ _

/-- all chunks recorded: every bit is set -/
theorem all_set_of_count {b : List Bool} (h : countSet b ≥ b.length) : ∀ i, i < b.length → bit b i = true := by
  induction b with
  | nil => intro i hi; cases hi
  | cons x xs ih =>
    cases x with
    | false =>
      have := countSet_le xs
      simp [countSet] at h this
      omega
    | true =>
      have h' : countSet xs ≥ xs.length := by simp [countSet] at h ⊢; omega
      intro i hi
      cases i with
      | zero => simp [bit]
      | succ k =>
        have := ih h' k (by simpa using hi)
        simpa [bit] using this

/-- the reported hash is unknown (it could not be computed in time): the highest recorded chunk is at or above `forceSendFrom`, so
the regular pass sends it - whatever the tail -/
theorem force_le_unknown {c : Cfg} {info : Info} (hk : info.hashKnown = false) (h0 : info.total > 0)
    (hv : info.lastVerified < info.total) : (plan c info).forceFrom ≤ info.lastVerified := by
  simp only [plan, hk, hv, ↓reduceIte, Bool.not_false, true_and, h0]
  repeat' split
  all_goals omega

/-- the reported hash is known: `forceSendFrom` is the highest recorded chunk + 1 less the tail (or `total` when all is recorded) -/
theorem force_known {c : Cfg} {info : Info} (hk : info.hashKnown = true) (hv : info.lastVerified < info.total) :
    (plan c info).forceFrom + c.tail ≥ info.lastVerified + 1 := by
  simp only [plan, hk, hv, ↓reduceIte, Bool.not_true, Bool.false_eq_true, false_and]
  repeat' split
  all_goals omega

theorem verifyNeeded_eq (c : Cfg) (info : Info) :
    (plan c info).verifyNeeded = (c.verify && decide (info.lastVerified < info.total) && c.hashOn && info.hashKnown) := by
  simp [plan]

end TV.Resume
