import ThruVerif.Model.ProtoLM
/-! Invariant, progress and decreasing measure of the manifest-level liveness abstraction (`Model/ProtoLM`). -/
namespace TV.ProtoLM

@[simp] theorem upd_same {α : Type} (f : Nat → α) (i : Nat) (v : α) : upd f i v i = v := by simp [upd]
theorem upd_other {α : Type} (f : Nat → α) (i j : Nat) (v : α) (h : j ≠ i) : upd f i v j = f j := by simp [upd, h]

theorem sumN_congr {k : Nat} {g h : Nat → Nat} (e : ∀ i, i < k → g i = h i) : sumN k g = sumN k h := by
  induction k with
  | zero => rfl
  | succ k ih =>
    simp only [sumN]
    rw [ih (fun i hi => e i (Nat.lt_succ_of_lt hi)), e k (Nat.lt_succ_self k)]

/-- changing one summand -/
theorem sumN_upd (k : Nat) (g : Nat → Nat) (i : Nat) (v : Nat) (hi : i < k) :
    sumN k (upd g i v) + g i = sumN k g + v := by
  induction k with
  | zero => cases hi
  | succ k ih =>
    simp only [sumN]
    by_cases hik : i = k
    · subst hik
      have : sumN i (upd g i v) = sumN i g := sumN_congr (fun j hj => upd_other g i j v (Nat.ne_of_lt hj))
      rw [this, upd_same]
      omega
    · have hlt : i < k := by omega
      have := ih hlt
      rw [upd_other g i k v (fun h => hik h.symm)]
      omega

theorem sumN_pos {k : Nat} {g : Nat → Nat} (h : 0 < sumN k g) : ∃ i, i < k ∧ 0 < g i := by
  induction k with
  | zero => simp [sumN] at h
  | succ k ih =>
    simp only [sumN] at h
    by_cases hk : 0 < g k
    · exact ⟨k, Nat.lt_succ_self k, hk⟩
    · have : 0 < sumN k g := by omega
      obtain ⟨i, hi, hp⟩ := ih this
      exact ⟨i, Nat.lt_succ_of_lt hi, hp⟩

theorem sumN_zero {k : Nat} {g : Nat → Nat} (h : ∀ i, i < k → g i = 0) : sumN k g = 0 := by
  induction k with
  | zero => rfl
  | succ k ih => simp only [sumN]; rw [ih (fun i hi => h i (Nat.lt_succ_of_lt hi)), h k (Nat.lt_succ_self k)]

theorem sumN_le_of_pos {k : Nat} {g : Nat → Nat} {i : Nat} (hi : i < k) : g i ≤ sumN k g := by
  induction k with
  | zero => cases hi
  | succ k ih =>
    simp only [sumN]
    by_cases hik : i = k
    · subst hik; omega
    · have := ih (by omega); omega

/-- the buffer with one cell changed -/
def bufSet (buf : Nat → Nat → Nat) (w f v : Nat) : Nat → Nat → Nat := upd buf w (upd (buf w) f v)

theorem bufSet_same (buf : Nat → Nat → Nat) (w f v : Nat) : bufSet buf w f v w f = v := by simp [bufSet]
theorem bufSet_other (buf : Nat → Nat → Nat) (w f v w' f' : Nat) (h : w' ≠ w ∨ f' ≠ f) :
    bufSet buf w f v w' f' = buf w' f' := by
  unfold bufSet
  by_cases hw : w' = w
  · subst hw
    rcases h with h | h
    · exact absurd rfl h
    · simp [upd, h]
  · simp [upd, hw]

/-- in-flight frames of file `f'` after one cell of the buffer changed -/
theorem inflight_bufSet (n : Nat) (buf : Nat → Nat → Nat) (w f v f' : Nat) (hw : w < n) :
    sumN n (fun w' => bufSet buf w f v w' f') + (if f' = f then buf w f else 0) =
      sumN n (fun w' => buf w' f') + (if f' = f then v else 0) := by
  by_cases hf : f' = f
  · subst hf
    simp only [if_true]
    have e : (fun w' => bufSet buf w f' v w' f') = upd (fun w' => buf w' f') w v := by
      funext w'
      by_cases hww : w' = w
      · subst hww; simp [bufSet]
      · rw [bufSet_other _ _ _ _ _ _ (Or.inl hww), upd_other _ _ _ _ hww]
    rw [e]
    exact sumN_upd n (fun w' => buf w' f') w v hw
  · simp only [hf, if_false, Nat.add_zero]
    exact sumN_congr (fun w' _ => bufSet_other _ _ _ _ _ _ (Or.inr hf))

structure Inv (s : St) : Prop where
  cons : ∀ f, f < s.k → s.remaining f = s.toSend f + inflight s f
  vis : ∀ w f, s.buf w f > 0 → w < s.visible
  acc : s.accepted ≤ s.visible ∧ s.visible ≤ s.n
  done1 : ∀ f, f < s.k → s.doneSent f = true → s.remaining f = 0 ∧ s.endRecv f = true
  done2 : ∀ f, f < s.k → s.remaining f = 0 → s.endRecv f = true → s.doneSent f = true
  endo : ∀ f, f < s.k → s.endRecv f = true → s.endSent f = true
  ends : ∀ f, f < s.k → s.endSent f = true → s.toSend f = 0
  dr : ∀ f, f < s.k → s.doneRecv f = true → s.doneSent f = true
  eas : s.endAllSent = true → allB s.k s.doneRecv
  ear : s.endAllRecv = true → s.endAllSent = true
  npos : 0 < s.n

theorem inv_init (k n : Nat) (chunks : Nat → Nat) (hn : 0 < n) : Inv (init k n chunks) := by
  constructor
  · intro f _
    simp only [init, inflight]
    rw [sumN_zero (fun _ _ => rfl)]
    rfl
  · intro w f h; simp [init] at h
  · simp [init]
  · intro f _ h; simp [init] at h
  · intro f _ _ h; simp [init] at h
  · intro f _ h; simp [init] at h
  · intro f _ h; simp [init] at h
  · intro f _ h; simp [init] at h
  · intro h; simp [init] at h
  · intro h; simp [init] at h
  · exact hn

/-- `fin` only ever sets `doneSent f`, and only when the file is complete -/
theorem fin_fields (s : St) (f : Nat) :
    (fin s f).k = s.k ∧ (fin s f).n = s.n ∧ (fin s f).toSend = s.toSend ∧ (fin s f).remaining = s.remaining ∧
    (fin s f).buf = s.buf ∧ (fin s f).visible = s.visible ∧ (fin s f).accepted = s.accepted ∧
    (fin s f).endSent = s.endSent ∧ (fin s f).endRecv = s.endRecv ∧ (fin s f).doneRecv = s.doneRecv ∧
    (fin s f).endAllSent = s.endAllSent ∧ (fin s f).endAllRecv = s.endAllRecv := by
  unfold fin; split <;> simp

theorem fin_doneSent (s : St) (f g : Nat) :
    (fin s f).doneSent g = if g = f ∧ s.remaining f = 0 ∧ s.endRecv f = true then true else s.doneSent g := by
  unfold fin
  by_cases hc : s.remaining f = 0 ∧ s.endRecv f = true
  · simp only [hc, and_self, if_true]
    by_cases hg : g = f
    · subst hg; simp
    · simp [upd, hg]
  · simp only [hc, if_false]
    by_cases hg : g = f
    · simp [hg, hc]
    · simp [hg]

/-- if everything but `doneSent` satisfies the invariant in a state where `f` may just have become complete, `fin` restores it -/
theorem fin_inv {s : St} {f : Nat} (hf : f < s.k)
    (cons : ∀ f, f < s.k → s.remaining f = s.toSend f + inflight s f)
    (vis : ∀ w f, s.buf w f > 0 → w < s.visible)
    (acc : s.accepted ≤ s.visible ∧ s.visible ≤ s.n)
    (done1 : ∀ g, g < s.k → s.doneSent g = true → s.remaining g = 0 ∧ s.endRecv g = true)
    (done2 : ∀ g, g < s.k → g ≠ f → s.remaining g = 0 → s.endRecv g = true → s.doneSent g = true)
    (endo : ∀ f, f < s.k → s.endRecv f = true → s.endSent f = true)
    (ends : ∀ f, f < s.k → s.endSent f = true → s.toSend f = 0)
    (dr : ∀ f, f < s.k → s.doneRecv f = true → s.doneSent f = true)
    (eas : s.endAllSent = true → allB s.k s.doneRecv)
    (ear : s.endAllRecv = true → s.endAllSent = true)
    (npos : 0 < s.n) : Inv (fin s f) := by
  obtain ⟨h1, h2, h3, h4, h5, h6, h7, h8, h9, h10, h11, h12⟩ := fin_fields s f
  constructor
  · intro g hg
    rw [h1] at hg
    simp only [inflight, h2, h3, h4, h5]
    exact cons g hg
  · intro w g hb; rw [h5] at hb; rw [h6]; exact vis w g hb
  · rw [h6, h7, h2]; exact acc
  · intro g hg hd
    rw [h1] at hg
    rw [fin_doneSent] at hd
    rw [h4, h9]
    split at hd
    · rename_i hc; rw [hc.1]; exact hc.2
    · exact done1 g hg hd
  · intro g hg hr he
    rw [h1] at hg; rw [h4] at hr; rw [h9] at he
    rw [fin_doneSent]
    by_cases hgf : g = f
    · subst hgf; simp [hr, he]
    · simp only [hgf, false_and, if_false]
      exact done2 g hg hgf hr he
  · intro g hg he; rw [h1] at hg; rw [h9] at he; rw [h8]; exact endo g hg he
  · intro g hg he; rw [h1] at hg; rw [h8] at he; rw [h3]; exact ends g hg he
  · intro g hg hd
    rw [h1] at hg; rw [h10] at hd
    rw [fin_doneSent]
    split
    · rfl
    · exact dr g hg hd
  · intro he; rw [h11] at he; rw [h1, h10]; exact eas he
  · intro he; rw [h12] at he; rw [h11]; exact ear he
  · rw [h2]; exact npos

theorem step_inv {s s' : St} {a : Step} (hi : Inv s) (hs : step s a = some s') : Inv s' := by
  obtain ⟨cons, vis, acc, done1, done2, endo, ends, dr, eas, ear, npos⟩ := hi
  cases a with
  | dispatch f w =>
    simp only [step] at hs
    split at hs
    · rename_i hc
      obtain ⟨hf, hw, hts⟩ := hc
      cases hs
      constructor
      · intro g hg
        simp only [inflight]
        have := inflight_bufSet s.n s.buf w f (s.buf w f + 1) g hw
        have hc := cons g hg
        simp only [inflight] at hc
        by_cases hgf : g = f
        · subst hgf
          simp only [if_true] at this
          simp only [upd_same, bufSet] at this ⊢
          omega
        · simp only [hgf, if_false, Nat.add_zero] at this
          rw [upd_other _ _ _ _ hgf]
          simp only [bufSet] at this
          omega
      · intro w' g hb
        simp only at hb ⊢
        by_cases hc : w' = w ∧ g = f
        · rw [hc.1]; omega
        · have := bufSet_other s.buf w f (s.buf w f + 1) w' g (by
            by_cases h1 : w' = w
            · exact Or.inr (fun h2 => hc ⟨h1, h2⟩)
            · exact Or.inl h1)
          simp only [bufSet] at this
          rw [this] at hb
          have := vis w' g hb
          omega
      · simp only; omega
      · intro g hg hd
        have := done1 g hg hd
        simp only
        by_cases hgf : g = f
        · subst hgf
          have hc := cons g hg
          omega
        · exact this
      · intro g hg hr he
        exact done2 g hg hr he
      · exact endo
      · intro g hg he
        have := ends g hg he
        simp only
        by_cases hgf : g = f
        · subst hgf; omega
        · rw [upd_other _ _ _ _ hgf]; exact this
      · exact dr
      · exact eas
      · exact ear
      · exact npos
    · cases hs
  | sendEnd f =>
    simp only [step] at hs
    split at hs
    · rename_i hc
      obtain ⟨hf, hts, hes⟩ := hc
      cases hs
      refine ⟨cons, vis, acc, done1, done2, ?_, ?_, dr, eas, ear, npos⟩
      · intro g hg he
        simp only
        by_cases hgf : g = f
        · subst hgf; simp
        · rw [upd_other _ _ _ _ hgf]; exact endo g hg he
      · intro g hg he
        simp only at he
        by_cases hgf : g = f
        · subst hgf; exact hts
        · rw [upd_other _ _ _ _ hgf] at he; exact ends g hg he
    · cases hs
  | accept =>
    simp only [step] at hs
    split at hs
    · rename_i hc
      cases hs
      exact ⟨cons, vis, by simp only; omega, done1, done2, endo, ends, dr, eas, ear, npos⟩
    · cases hs
  | readFrame w f =>
    simp only [step] at hs
    split at hs
    · rename_i hc
      obtain ⟨hf, hw, hb⟩ := hc
      cases hs
      have hwn : w < s.n := by omega
      have hcf := cons f hf
      have hle : s.buf w f ≤ inflight s f := sumN_le_of_pos (g := fun w' => s.buf w' f) hwn
      apply fin_inv (s := { s with buf := upd s.buf w (upd (s.buf w) f (s.buf w f - 1)), remaining := upd s.remaining f (s.remaining f - 1) }) hf
      · intro g hg
        simp only [inflight]
        have := inflight_bufSet s.n s.buf w f (s.buf w f - 1) g hwn
        have hc := cons g hg
        simp only [inflight] at hc hle
        by_cases hgf : g = f
        · subst hgf
          simp only [if_true] at this
          simp only [upd_same, bufSet] at this ⊢
          omega
        · simp only [hgf, if_false, Nat.add_zero] at this
          rw [upd_other _ _ _ _ hgf]
          simp only [bufSet] at this
          omega
      · intro w' g hb'
        simp only at hb' ⊢
        by_cases hc : w' = w ∧ g = f
        · rw [hc.1]; omega
        · have := bufSet_other s.buf w f (s.buf w f - 1) w' g (by
            by_cases h1 : w' = w
            · exact Or.inr (fun h2 => hc ⟨h1, h2⟩)
            · exact Or.inl h1)
          simp only [bufSet] at this
          rw [this] at hb'
          exact vis w' g hb'
      · exact acc
      · intro g hg hd
        have := done1 g hg hd
        simp only
        by_cases hgf : g = f
        · subst hgf
          simp only [upd_same]
          exact ⟨by omega, this.2⟩
        · rw [upd_other _ _ _ _ hgf]; exact this
      · intro g hg hgf hr he
        simp only at hr
        rw [upd_other _ _ _ _ hgf] at hr
        exact done2 g hg hr he
      · exact endo
      · exact ends
      · exact dr
      · exact eas
      · exact ear
      · exact npos
    · cases hs
  | recvEnd f =>
    simp only [step] at hs
    split at hs
    · rename_i hc
      obtain ⟨hf, hes, her⟩ := hc
      cases hs
      apply fin_inv (s := { s with endRecv := upd s.endRecv f true }) hf
      · exact cons
      · exact vis
      · exact acc
      · intro g hg hd
        have := done1 g hg hd
        simp only
        by_cases hgf : g = f
        · subst hgf; simp [this.1]
        · rw [upd_other _ _ _ _ hgf]; exact this
      · intro g hg hgf hr he
        simp only at he
        rw [upd_other _ _ _ _ hgf] at he
        exact done2 g hg hr he
      · intro g hg he
        simp only at he
        by_cases hgf : g = f
        · subst hgf; exact hes
        · rw [upd_other _ _ _ _ hgf] at he; exact endo g hg he
      · exact ends
      · exact dr
      · exact eas
      · exact ear
      · exact npos
    · cases hs
  | recvDone f =>
    simp only [step] at hs
    split at hs
    · rename_i hc
      obtain ⟨hf, hds, hdr⟩ := hc
      cases hs
      refine ⟨cons, vis, acc, done1, done2, endo, ends, ?_, ?_, ear, npos⟩
      · intro g hg hd
        simp only at hd
        by_cases hgf : g = f
        · subst hgf; exact hds
        · rw [upd_other _ _ _ _ hgf] at hd; exact dr g hg hd
      · intro he
        have := eas he
        intro g hg
        simp only
        by_cases hgf : g = f
        · subst hgf; simp
        · rw [upd_other _ _ _ _ hgf]; exact this g hg
    · cases hs
  | sendEndAll =>
    simp only [step] at hs
    split at hs
    · rename_i hc
      cases hs
      refine ⟨cons, ?_, by simp only; omega, done1, done2, endo, ends, dr, fun _ => hc.1, ?_, npos⟩
      · -- every file is confirmed: nothing is in flight any more
        intro w f hb
        simp only at hb ⊢
        have := vis w f hb
        omega
      · intro he; simp only at he ⊢
    · cases hs
  | recvEndAll =>
    simp only [step] at hs
    split at hs
    · rename_i hc
      cases hs
      exact ⟨cons, vis, acc, done1, done2, endo, ends, dr, eas, fun _ => hc.1, npos⟩
    · cases hs

theorem reachable_inv {k n : Nat} {chunks : Nat → Nat} (hn : 0 < n) {s : St} (h : Reachable k n chunks s) : Inv s := by
  induction h with
  | init => exact inv_init k n chunks hn
  | step a _ hs ih => exact step_inv ih hs

/-! ### progress: no reachable non-final state is stuck -/

theorem progress {s : St} (hi : Inv s) (hnf : s.endAllRecv = false) : ∃ a s', step s a = some s' := by
  by_cases h1 : ∃ f, f < s.k ∧ s.toSend f > 0
  · obtain ⟨f, hf, ht⟩ := h1
    exact ⟨.dispatch f 0, _, by simp only [step]; rw [if_pos ⟨hf, hi.npos, ht⟩]⟩
  have hts : ∀ f, f < s.k → s.toSend f = 0 := by
    intro f hf
    apply Decidable.byContradiction
    intro hc
    exact h1 ⟨f, hf, by omega⟩
  by_cases h2 : ∃ f, f < s.k ∧ s.endSent f = false
  · obtain ⟨f, hf, he⟩ := h2
    exact ⟨.sendEnd f, _, by simp only [step]; rw [if_pos ⟨hf, hts f hf, he⟩]⟩
  have hes : ∀ f, f < s.k → s.endSent f = true := by
    intro f hf
    cases hv : s.endSent f with
    | true => rfl
    | false => exact absurd ⟨f, hf, hv⟩ h2
  by_cases h3 : ∃ f, f < s.k ∧ s.endRecv f = false
  · obtain ⟨f, hf, he⟩ := h3
    exact ⟨.recvEnd f, _, by simp only [step]; rw [if_pos ⟨hf, hes f hf, he⟩]⟩
  have her : ∀ f, f < s.k → s.endRecv f = true := by
    intro f hf
    cases hv : s.endRecv f with
    | true => rfl
    | false => exact absurd ⟨f, hf, hv⟩ h3
  by_cases h4 : ∃ f, f < s.k ∧ s.remaining f > 0
  · obtain ⟨f, hf, hr⟩ := h4
    have hc := hi.cons f hf
    rw [hts f hf] at hc
    have hpos : 0 < sumN s.n (fun w => s.buf w f) := by simp only [inflight] at hc; omega
    obtain ⟨w, hw, hb⟩ := sumN_pos hpos
    have hv := hi.vis w f hb
    by_cases hwa : w < s.accepted
    · exact ⟨.readFrame w f, _, by simp only [step]; rw [if_pos ⟨hf, hwa, hb⟩]⟩
    · exact ⟨.accept, _, by simp only [step]; rw [if_pos (by omega)]⟩
  have hrem : ∀ f, f < s.k → s.remaining f = 0 := by
    intro f hf
    apply Decidable.byContradiction
    intro hc
    exact h4 ⟨f, hf, by omega⟩
  have hds : ∀ f, f < s.k → s.doneSent f = true := fun f hf => hi.done2 f hf (hrem f hf) (her f hf)
  by_cases h5 : ∃ f, f < s.k ∧ s.doneRecv f = false
  · obtain ⟨f, hf, hd⟩ := h5
    exact ⟨.recvDone f, _, by simp only [step]; rw [if_pos ⟨hf, hds f hf, hd⟩]⟩
  have hdr : allB s.k s.doneRecv := by
    intro f hf
    cases hv : s.doneRecv f with
    | true => rfl
    | false => exact absurd ⟨f, hf, hv⟩ h5
  cases hea : s.endAllSent with
  | false => exact ⟨.sendEndAll, _, by simp only [step]; rw [if_pos ⟨hdr, hea⟩]⟩
  | true => exact ⟨.recvEndAll, _, by simp only [step]; rw [if_pos ⟨hea, hnf⟩]⟩

/-! ### every step decreases a natural measure: all runs are finite -/

def term (s : St) (f : Nat) : Nat := 2 * s.toSend f + b2n (!s.endSent f) + b2n (!s.endRecv f) + b2n (!s.doneRecv f)

theorem measure_eq (s : St) :
    measure s = sumN s.k (term s) + sumN s.k (inflight s) + (s.n - s.accepted) + b2n (!s.endAllSent) + b2n (!s.endAllRecv) := rfl

theorem sum_change {k : Nat} {g g' : Nat → Nat} {f : Nat} (hf : f < k) (h : ∀ i, i ≠ f → g' i = g i) :
    sumN k g' + g f = sumN k g + g' f := by
  have : sumN k g' = sumN k (upd g f (g' f)) := by
    apply sumN_congr
    intro i _
    by_cases hi : i = f
    · subst hi; simp
    · rw [upd_other _ _ _ _ hi]; exact h i hi
  rw [this]
  exact sumN_upd k g f (g' f) hf

theorem measure_fin (s : St) (f : Nat) : measure (fin s f) = measure s := by
  obtain ⟨h1, h2, h3, h4, h5, h6, h7, h8, h9, h10, h11, h12⟩ := fin_fields s f
  simp only [measure, inflight, h1, h2, h3, h5, h7, h8, h9, h10, h11, h12]

theorem b2n_le (b : Bool) : b2n b ≤ 1 := by cases b <;> simp [b2n]

theorem step_measure {s s' : St} {a : Step} (hi : Inv s) (hs : step s a = some s') : measure s' < measure s := by
  cases a with
  | dispatch f w =>
    simp only [step] at hs
    split at hs
    · rename_i hc
      obtain ⟨hf, hw, hts⟩ := hc
      cases hs
      simp only [measure_eq]
      have hA := sum_change (k := s.k) (g := term s)
        (g' := term { s with toSend := upd s.toSend f (s.toSend f - 1), buf := upd s.buf w (upd (s.buf w) f (s.buf w f + 1)), visible := max s.visible (w + 1) })
        hf (by intro i hi; simp only [term]; rw [upd_other _ _ _ _ hi])
      have hB := sum_change (k := s.k) (g := inflight s)
        (g' := inflight { s with toSend := upd s.toSend f (s.toSend f - 1), buf := upd s.buf w (upd (s.buf w) f (s.buf w f + 1)), visible := max s.visible (w + 1) })
        hf (by
          intro i hi
          simp only [inflight]
          have := inflight_bufSet s.n s.buf w f (s.buf w f + 1) i hw
          simp only [hi, if_false, Nat.add_zero, bufSet] at this
          exact this)
      have hBf : inflight { s with toSend := upd s.toSend f (s.toSend f - 1), buf := upd s.buf w (upd (s.buf w) f (s.buf w f + 1)), visible := max s.visible (w + 1) } f
          = inflight s f + 1 := by
        simp only [inflight]
        have := inflight_bufSet s.n s.buf w f (s.buf w f + 1) f hw
        simp only [if_true, bufSet] at this
        omega
      have hAf : term { s with toSend := upd s.toSend f (s.toSend f - 1), buf := upd s.buf w (upd (s.buf w) f (s.buf w f + 1)), visible := max s.visible (w + 1) } f + 2
          = term s f := by
        simp only [term, upd_same]; omega
      omega
    · cases hs
  | sendEnd f =>
    simp only [step] at hs
    split at hs
    · rename_i hc
      obtain ⟨hf, hts, hes⟩ := hc
      cases hs
      simp only [measure_eq]
      have hA := sum_change (k := s.k) (g := term s) (g' := term { s with endSent := upd s.endSent f true })
        hf (by intro i hi; simp only [term]; rw [upd_other _ _ _ _ hi])
      have hAf : term { s with endSent := upd s.endSent f true } f + 1 = term s f := by
        simp only [term, upd_same, hes, b2n]; simp; omega
      have hB : sumN s.k (inflight { s with endSent := upd s.endSent f true }) = sumN s.k (inflight s) := rfl
      omega
    · cases hs
  | accept =>
    simp only [step] at hs
    split at hs
    · rename_i hc
      cases hs
      have := hi.acc
      simp only [measure_eq]
      have hA : sumN s.k (term { s with accepted := s.accepted + 1 }) = sumN s.k (term s) := rfl
      have hB : sumN s.k (inflight { s with accepted := s.accepted + 1 }) = sumN s.k (inflight s) := rfl
      omega
    · cases hs
  | readFrame w f =>
    simp only [step] at hs
    split at hs
    · rename_i hc
      obtain ⟨hf, hw, hb⟩ := hc
      cases hs
      rw [measure_fin]
      have hwn : w < s.n := by have := hi.acc; omega
      simp only [measure_eq]
      have hA : sumN s.k (term { s with buf := upd s.buf w (upd (s.buf w) f (s.buf w f - 1)), remaining := upd s.remaining f (s.remaining f - 1) })
          = sumN s.k (term s) := rfl
      have hB := sum_change (k := s.k) (g := inflight s)
        (g' := inflight { s with buf := upd s.buf w (upd (s.buf w) f (s.buf w f - 1)), remaining := upd s.remaining f (s.remaining f - 1) })
        hf (by
          intro i hi'
          simp only [inflight]
          have := inflight_bufSet s.n s.buf w f (s.buf w f - 1) i hwn
          simp only [hi', if_false, Nat.add_zero, bufSet] at this
          exact this)
      have hBf : inflight { s with buf := upd s.buf w (upd (s.buf w) f (s.buf w f - 1)), remaining := upd s.remaining f (s.remaining f - 1) } f + 1
          = inflight s f := by
        simp only [inflight]
        have := inflight_bufSet s.n s.buf w f (s.buf w f - 1) f hwn
        simp only [if_true, bufSet] at this
        omega
      omega
    · cases hs
  | recvEnd f =>
    simp only [step] at hs
    split at hs
    · rename_i hc
      obtain ⟨hf, hes, her⟩ := hc
      cases hs
      rw [measure_fin]
      simp only [measure_eq]
      have hA := sum_change (k := s.k) (g := term s) (g' := term { s with endRecv := upd s.endRecv f true })
        hf (by intro i hi; simp only [term]; rw [upd_other _ _ _ _ hi])
      have hAf : term { s with endRecv := upd s.endRecv f true } f + 1 = term s f := by
        simp only [term, upd_same, her, b2n]; simp; omega
      have hB : sumN s.k (inflight { s with endRecv := upd s.endRecv f true }) = sumN s.k (inflight s) := rfl
      omega
    · cases hs
  | recvDone f =>
    simp only [step] at hs
    split at hs
    · rename_i hc
      obtain ⟨hf, hds, hdr⟩ := hc
      cases hs
      simp only [measure_eq]
      have hA := sum_change (k := s.k) (g := term s) (g' := term { s with doneRecv := upd s.doneRecv f true })
        hf (by intro i hi; simp only [term]; rw [upd_other _ _ _ _ hi])
      have hAf : term { s with doneRecv := upd s.doneRecv f true } f + 1 = term s f := by
        simp only [term, upd_same, hdr, b2n]; simp
      have hB : sumN s.k (inflight { s with doneRecv := upd s.doneRecv f true }) = sumN s.k (inflight s) := rfl
      omega
    · cases hs
  | sendEndAll =>
    simp only [step] at hs
    split at hs
    · rename_i hc
      cases hs
      simp only [measure_eq]
      have hA : sumN s.k (term { s with endAllSent := true, visible := s.n }) = sumN s.k (term s) := rfl
      have hB : sumN s.k (inflight { s with endAllSent := true, visible := s.n }) = sumN s.k (inflight s) := rfl
      simp only [hc.2, b2n] at *
      simp
      omega
    · cases hs
  | recvEndAll =>
    simp only [step] at hs
    split at hs
    · rename_i hc
      cases hs
      simp only [measure_eq]
      have hA : sumN s.k (term { s with endAllRecv := true }) = sumN s.k (term s) := rfl
      have hB : sumN s.k (inflight { s with endAllRecv := true }) = sumN s.k (inflight s) := rfl
      simp only [hc.2, b2n] at *
      simp
      omega
    · cases hs

end TV.ProtoLM
