import ThruVerif.Model.ProtoLMC
import ThruVerif.Proofs.ProtoLM
/-! Invariant, progress and decreasing measure of the multi-connection liveness abstraction (`Model/ProtoLMC`). -/
namespace TV.ProtoLMC
open TV.ProtoLM (upd sumN b2n allB upd_same upd_other sumN_congr sumN_upd sumN_pos sumN_zero sumN_le_of_pos bufSet bufSet_same
  bufSet_other inflight_bufSet sum_change b2n_le)

/-- the `g`-th stream opened is within the streams of its connection -/
theorem pos_lt_cnt {n c w : Nat} (hc : 0 < c) (hw : w ≤ n) : w / c < cnt n c (w % c) := by
  unfold cnt
  have h1 := Nat.div_add_mod w c
  have h2 : w % c < c := Nat.mod_lt w hc
  apply (Nat.le_div_iff_mul_le hc).mpr
  show (w / c + 1) * c ≤ n + c - w % c
  have : (w / c + 1) * c = c * (w / c) + c := by rw [Nat.add_mul, Nat.mul_comm]; simp
  rw [this]
  omega

theorem cnt_zero_pos {n c : Nat} (hc : 0 < c) : 1 ≤ cnt n c 0 := by
  have := pos_lt_cnt (n := n) (c := c) (w := 0) hc (Nat.zero_le n)
  simp at this
  exact this

structure Inv (s : St) : Prop where
  cons : ∀ f, f < s.k → s.remaining f = s.toSend f + inflight s f
  vis : ∀ w f, s.buf w f > 0 → w / s.c < s.visible (w % s.c)
  acc : ∀ j, j < s.c → s.accepted j ≤ s.visible j ∧ s.visible j ≤ cnt s.n s.c j
  visU : ∀ w f, s.bufU w f > 0 → w / s.c < s.visible (w % s.c)
  endsU : ∀ f, f < s.k → s.endSent f = true → s.toSendU f = 0
  done1 : ∀ f, f < s.k → s.doneSent f = true → s.remaining f = 0 ∧ s.endRecv f = true
  done2 : ∀ f, f < s.k → s.remaining f = 0 → s.endRecv f = true → s.doneSent f = true
  endo : ∀ f, f < s.k → s.endRecv f = true → s.endSent f = true
  ends : ∀ f, f < s.k → s.endSent f = true → s.toSend f = 0
  dr : ∀ f, f < s.k → s.doneRecv f = true → s.doneSent f = true
  eas : s.endAllSent = true → allB s.k s.doneRecv
  ear : s.endAllRecv = true → s.endAllSent = true
  npos : 0 < s.n
  cpos : 0 < s.c

theorem inv_init (k n c : Nat) (chunks extra : Nat → Nat) (hn : 0 < n) (hc : 0 < c) : Inv (init k n c chunks extra) := by
  constructor
  · intro f _
    simp only [init, inflight]
    rw [sumN_zero (fun _ _ => rfl)]
    rfl
  · intro w f h; simp [init] at h
  · intro j _
    simp only [init]
    by_cases hj : j = 0
    · subst hj; simp only [if_true]; exact ⟨Nat.le_refl _, cnt_zero_pos hc⟩
    · simp [hj]
  · intro w f h; simp [init] at h
  · intro f _ h; simp [init] at h
  · intro f _ h; simp [init] at h
  · intro f _ _ h; simp [init] at h
  · intro f _ h; simp [init] at h
  · intro f _ h; simp [init] at h
  · intro f _ h; simp [init] at h
  · intro h; simp [init] at h
  · intro h; simp [init] at h
  · exact hn
  · exact hc

/-- `fin` only ever sets `doneSent f`, and only when the file is complete -/
theorem fin_fields (s : St) (f : Nat) :
    (fin s f).c = s.c ∧ (fin s f).k = s.k ∧ (fin s f).n = s.n ∧ (fin s f).toSend = s.toSend ∧ (fin s f).remaining = s.remaining ∧
    (fin s f).buf = s.buf ∧ (fin s f).toSendU = s.toSendU ∧ (fin s f).bufU = s.bufU ∧ (fin s f).visible = s.visible ∧ (fin s f).accepted = s.accepted ∧
    (fin s f).endSent = s.endSent ∧ (fin s f).endRecv = s.endRecv ∧ (fin s f).doneRecv = s.doneRecv ∧
    (fin s f).endAllSent = s.endAllSent ∧ (fin s f).endAllRecv = s.endAllRecv := by
  unfold fin; split <;> simp

theorem fin_doneSent (s : St) (f g : Nat) :
    (fin s f).doneSent g = if g = f ∧ s.remaining f = 0 ∧ s.endRecv f = true then true else s.doneSent g := by
  unfold fin
  by_cases hc : s.remaining f = 0 ∧ s.endRecv f = true
  · simp only [hc, and_self, if_true]
    by_cases hg : g = f
    · subst hg; simp
    · simp [upd, hg]
  · simp only [hc, if_false]
    by_cases hg : g = f
    · simp [hg, hc]
    · simp [hg]

/-- if everything but `doneSent` satisfies the invariant in a state where `f` may just have become complete, `fin` restores it -/
theorem fin_inv {s : St} {f : Nat} (hf : f < s.k)
    (cons : ∀ f, f < s.k → s.remaining f = s.toSend f + inflight s f)
    (vis : ∀ w f, s.buf w f > 0 → w / s.c < s.visible (w % s.c))
    (acc : ∀ j, j < s.c → s.accepted j ≤ s.visible j ∧ s.visible j ≤ cnt s.n s.c j)
    (visU : ∀ w f, s.bufU w f > 0 → w / s.c < s.visible (w % s.c))
    (endsU : ∀ f, f < s.k → s.endSent f = true → s.toSendU f = 0)
    (done1 : ∀ g, g < s.k → s.doneSent g = true → s.remaining g = 0 ∧ s.endRecv g = true)
    (done2 : ∀ g, g < s.k → g ≠ f → s.remaining g = 0 → s.endRecv g = true → s.doneSent g = true)
    (endo : ∀ f, f < s.k → s.endRecv f = true → s.endSent f = true)
    (ends : ∀ f, f < s.k → s.endSent f = true → s.toSend f = 0)
    (dr : ∀ f, f < s.k → s.doneRecv f = true → s.doneSent f = true)
    (eas : s.endAllSent = true → allB s.k s.doneRecv)
    (ear : s.endAllRecv = true → s.endAllSent = true)
    (npos : 0 < s.n) (cpos : 0 < s.c) : Inv (fin s f) := by
  obtain ⟨h0, h1, h2, h3, h4, h5, hU1, hU2, h6, h7, h8, h9, h10, h11, h12⟩ := fin_fields s f
  constructor
  · intro g hg
    rw [h1] at hg
    simp only [inflight, h2, h3, h4, h5]
    exact cons g hg
  · intro w g hb; rw [h5] at hb; rw [h6, h0]; exact vis w g hb
  · intro j hj; rw [h0] at hj; rw [h6, h7, h2, h0]; exact acc j hj
  · intro w g hb; rw [hU2] at hb; rw [h6, h0]; exact visU w g hb
  · intro g hg he; rw [h1] at hg; rw [h8] at he; rw [hU1]; exact endsU g hg he
  · intro g hg hd
    rw [h1] at hg
    rw [fin_doneSent] at hd
    rw [h4, h9]
    split at hd
    · rename_i hc; rw [hc.1]; exact hc.2
    · exact done1 g hg hd
  · intro g hg hr he
    rw [h1] at hg; rw [h4] at hr; rw [h9] at he
    rw [fin_doneSent]
    by_cases hgf : g = f
    · subst hgf; simp [hr, he]
    · simp only [hgf, false_and, if_false]
      exact done2 g hg hgf hr he
  · intro g hg he; rw [h1] at hg; rw [h9] at he; rw [h8]; exact endo g hg he
  · intro g hg he; rw [h1] at hg; rw [h8] at he; rw [h3]; exact ends g hg he
  · intro g hg hd
    rw [h1] at hg; rw [h10] at hd
    rw [fin_doneSent]
    split
    · rfl
    · exact dr g hg hd
  · intro he; rw [h11] at he; rw [h1, h10]; exact eas he
  · intro he; rw [h12] at he; rw [h11]; exact ear he
  · rw [h2]; exact npos
  · rw [h0]; exact cpos

theorem step_inv {s s' : St} {a : Step} (hi : Inv s) (hs : step s a = some s') : Inv s' := by
  obtain ⟨cons, vis, acc, visU, endsU, done1, done2, endo, ends, dr, eas, ear, npos, cpos⟩ := hi
  cases a with
  | dispatch f w =>
    simp only [step] at hs
    split at hs
    · rename_i hc
      obtain ⟨hf, hw1, hw, hts⟩ := hc
      cases hs
      have hwn : w < s.n + 1 := by omega
      constructor
      · intro g hg
        simp only [inflight]
        have := inflight_bufSet (s.n + 1) s.buf w f (s.buf w f + 1) g hwn
        have hc := cons g hg
        simp only [inflight] at hc
        by_cases hgf : g = f
        · subst hgf
          simp only [if_true] at this
          simp only [upd_same, bufSet] at this ⊢
          omega
        · simp only [hgf, if_false, Nat.add_zero] at this
          rw [upd_other _ _ _ _ hgf]
          simp only [bufSet] at this
          omega
      · intro w' g hb
        simp only at hb ⊢
        by_cases hc : w' = w ∧ g = f
        · rw [hc.1, upd_same]; omega
        · have := bufSet_other s.buf w f (s.buf w f + 1) w' g (by
            by_cases h1 : w' = w
            · exact Or.inr (fun h2 => hc ⟨h1, h2⟩)
            · exact Or.inl h1)
          simp only [bufSet] at this
          rw [this] at hb
          have hv := vis w' g hb
          by_cases hm : w' % s.c = w % s.c
          · rw [hm, upd_same]; rw [hm] at hv; omega
          · rw [upd_other _ _ _ _ hm]; exact hv
      · intro j hj
        simp only
        by_cases hm : j = w % s.c
        · subst hm
          rw [upd_same]
          have := acc _ hj
          have := pos_lt_cnt (n := s.n) cpos hw
          omega
        · rw [upd_other _ _ _ _ hm]; exact acc j hj
      · intro w' g hb
        simp only at hb ⊢
        have hv := visU w' g hb
        by_cases hm : w' % s.c = w % s.c
        · rw [hm, upd_same]; rw [hm] at hv; omega
        · rw [upd_other _ _ _ _ hm]; exact hv
      · exact endsU
      · intro g hg hd
        have := done1 g hg hd
        simp only
        by_cases hgf : g = f
        · subst hgf
          have hc := cons g hg
          omega
        · exact this
      · intro g hg hr he
        exact done2 g hg hr he
      · exact endo
      · intro g hg he
        have := ends g hg he
        simp only
        by_cases hgf : g = f
        · subst hgf; omega
        · rw [upd_other _ _ _ _ hgf]; exact this
      · exact dr
      · exact eas
      · exact ear
      · exact npos
      · exact cpos
    · cases hs
  | dispatchU f w =>
    simp only [step] at hs
    split at hs
    · rename_i hc
      obtain ⟨hf, hw1, hw, hts⟩ := hc
      cases hs
      refine ⟨cons, ?_, ?_, ?_, ?_, done1, done2, endo, ends, dr, eas, ear, npos, cpos⟩
      · intro w' g hb
        simp only at hb ⊢
        have hv := vis w' g hb
        by_cases hm : w' % s.c = w % s.c
        · rw [hm, upd_same]; rw [hm] at hv; omega
        · rw [upd_other _ _ _ _ hm]; exact hv
      · intro j hj
        simp only
        by_cases hm : j = w % s.c
        · subst hm
          rw [upd_same]
          have := acc _ hj
          have := pos_lt_cnt (n := s.n) cpos hw
          omega
        · rw [upd_other _ _ _ _ hm]; exact acc j hj
      · intro w' g hb
        simp only at hb ⊢
        by_cases hc : w' = w ∧ g = f
        · rw [hc.1, upd_same]; omega
        · have := bufSet_other s.bufU w f (s.bufU w f + 1) w' g (by
            by_cases h1 : w' = w
            · exact Or.inr (fun h2 => hc ⟨h1, h2⟩)
            · exact Or.inl h1)
          simp only [bufSet] at this
          rw [this] at hb
          have hv := visU w' g hb
          by_cases hm : w' % s.c = w % s.c
          · rw [hm, upd_same]; rw [hm] at hv; omega
          · rw [upd_other _ _ _ _ hm]; exact hv
      · intro g hg he
        have := endsU g hg he
        simp only
        by_cases hgf : g = f
        · subst hgf; omega
        · rw [upd_other _ _ _ _ hgf]; exact this
    · cases hs
  | readFrameU w f =>
    simp only [step] at hs
    split at hs
    · rename_i hc
      obtain ⟨hf, hw, hb⟩ := hc
      cases hs
      refine ⟨cons, vis, acc, ?_, endsU, done1, done2, endo, ends, dr, eas, ear, npos, cpos⟩
      intro w' g hb'
      simp only at hb' ⊢
      by_cases hc : w' = w ∧ g = f
      · rw [hc.1]; exact visU w f hb
      · have := bufSet_other s.bufU w f (s.bufU w f - 1) w' g (by
          by_cases h1 : w' = w
          · exact Or.inr (fun h2 => hc ⟨h1, h2⟩)
          · exact Or.inl h1)
        simp only [bufSet] at this
        rw [this] at hb'
        exact visU w' g hb'
    · cases hs
  | sendEnd f =>
    simp only [step] at hs
    split at hs
    · rename_i hc
      obtain ⟨hf, hts, htsU, hes⟩ := hc
      cases hs
      refine ⟨cons, vis, acc, visU, ?_, done1, done2, ?_, ?_, dr, eas, ear, npos, cpos⟩
      · intro g hg he
        simp only at he
        by_cases hgf : g = f
        · subst hgf; exact htsU
        · rw [upd_other _ _ _ _ hgf] at he; exact endsU g hg he
      · intro g hg he
        simp only
        by_cases hgf : g = f
        · subst hgf; simp
        · rw [upd_other _ _ _ _ hgf]; exact endo g hg he
      · intro g hg he
        simp only at he
        by_cases hgf : g = f
        · subst hgf; exact hts
        · rw [upd_other _ _ _ _ hgf] at he; exact ends g hg he
    · cases hs
  | accept j =>
    simp only [step] at hs
    split at hs
    · rename_i hc
      cases hs
      refine ⟨cons, vis, ?_, visU, endsU, done1, done2, endo, ends, dr, eas, ear, npos, cpos⟩
      intro j' hj'
      simp only
      by_cases hm : j' = j
      · subst hm; rw [upd_same]; have := acc j' hj'; omega
      · rw [upd_other _ _ _ _ hm]; exact acc j' hj'
    · cases hs
  | readFrame w f =>
    simp only [step] at hs
    split at hs
    · rename_i hc
      obtain ⟨hf, hw, hb⟩ := hc
      cases hs
      have hmc : w % s.c < s.c := Nat.mod_lt w cpos
      have hwn : w < s.n + 1 := by
        -- a stream beyond the last one has no frames: `vis` and `acc` bound its position
        apply Decidable.byContradiction
        intro hge
        have h1 := (acc _ hmc).2
        have h2 := vis w f hb
        -- w / c < cnt n c (w % c) forces w ≤ n
        unfold cnt at h1
        have h3 : w / s.c < (s.n + s.c - w % s.c) / s.c := by omega
        have h4 := (Nat.lt_div_iff_mul_lt cpos).mp h3
        have h5 := Nat.div_add_mod w s.c
        have h6 : (w / s.c) * s.c = s.c * (w / s.c) := Nat.mul_comm _ _
        omega
      have hcf := cons f hf
      have hle : s.buf w f ≤ inflight s f := sumN_le_of_pos (g := fun w' => s.buf w' f) hwn
      apply fin_inv (s := { s with buf := upd s.buf w (upd (s.buf w) f (s.buf w f - 1)), remaining := upd s.remaining f (s.remaining f - 1) }) hf
      · intro g hg
        simp only [inflight]
        have := inflight_bufSet (s.n + 1) s.buf w f (s.buf w f - 1) g hwn
        have hc := cons g hg
        simp only [inflight] at hc hle
        by_cases hgf : g = f
        · subst hgf
          simp only [if_true] at this
          simp only [upd_same, bufSet] at this ⊢
          omega
        · simp only [hgf, if_false, Nat.add_zero] at this
          rw [upd_other _ _ _ _ hgf]
          simp only [bufSet] at this
          omega
      · intro w' g hb'
        simp only at hb' ⊢
        by_cases hc : w' = w ∧ g = f
        · rw [hc.1]; have := vis w f hb; exact this
        · have := bufSet_other s.buf w f (s.buf w f - 1) w' g (by
            by_cases h1 : w' = w
            · exact Or.inr (fun h2 => hc ⟨h1, h2⟩)
            · exact Or.inl h1)
          simp only [bufSet] at this
          rw [this] at hb'
          exact vis w' g hb'
      · exact acc
      · exact visU
      · exact endsU
      · intro g hg hd
        have := done1 g hg hd
        simp only
        by_cases hgf : g = f
        · subst hgf
          simp only [upd_same]
          exact ⟨by omega, this.2⟩
        · rw [upd_other _ _ _ _ hgf]; exact this
      · intro g hg hgf hr he
        simp only at hr
        rw [upd_other _ _ _ _ hgf] at hr
        exact done2 g hg hr he
      · exact endo
      · exact ends
      · exact dr
      · exact eas
      · exact ear
      · exact npos
      · exact cpos
    · cases hs
  | recvEnd f =>
    simp only [step] at hs
    split at hs
    · rename_i hc
      obtain ⟨hf, hes, her⟩ := hc
      cases hs
      apply fin_inv (s := { s with endRecv := upd s.endRecv f true }) hf
      · exact cons
      · exact vis
      · exact acc
      · exact visU
      · exact endsU
      · intro g hg hd
        have := done1 g hg hd
        simp only
        by_cases hgf : g = f
        · subst hgf; simp [this.1]
        · rw [upd_other _ _ _ _ hgf]; exact this
      · intro g hg hgf hr he
        simp only at he
        rw [upd_other _ _ _ _ hgf] at he
        exact done2 g hg hr he
      · intro g hg he
        simp only at he
        by_cases hgf : g = f
        · subst hgf; exact hes
        · rw [upd_other _ _ _ _ hgf] at he; exact endo g hg he
      · exact ends
      · exact dr
      · exact eas
      · exact ear
      · exact npos
      · exact cpos
    · cases hs
  | recvDone f =>
    simp only [step] at hs
    split at hs
    · rename_i hc
      obtain ⟨hf, hds, hdr⟩ := hc
      cases hs
      refine ⟨cons, vis, acc, visU, endsU, done1, done2, endo, ends, ?_, ?_, ear, npos, cpos⟩
      · intro g hg hd
        simp only at hd
        by_cases hgf : g = f
        · subst hgf; exact hds
        · rw [upd_other _ _ _ _ hgf] at hd; exact dr g hg hd
      · intro he
        have := eas he
        intro g hg
        simp only
        by_cases hgf : g = f
        · subst hgf; simp
        · rw [upd_other _ _ _ _ hgf]; exact this g hg
    · cases hs
  | sendEndAll =>
    simp only [step] at hs
    split at hs
    · rename_i hc
      cases hs
      refine ⟨cons, ?_, ?_, ?_, endsU, done1, done2, endo, ends, dr, fun _ => hc.1, ?_, npos, cpos⟩
      · intro w f hb
        simp only at hb ⊢
        have := vis w f hb
        have := (acc _ (Nat.mod_lt w cpos)).2
        omega
      · intro j hj
        simp only
        have := acc j hj
        exact ⟨by omega, Nat.le_refl _⟩
      · intro w f hb
        simp only at hb ⊢
        have := visU w f hb
        have := (acc _ (Nat.mod_lt w cpos)).2
        omega
      · intro he; simp only at he ⊢
    · cases hs
  | recvEndAll =>
    simp only [step] at hs
    split at hs
    · rename_i hc
      cases hs
      exact ⟨cons, vis, acc, visU, endsU, done1, done2, endo, ends, dr, eas, fun _ => hc.1, npos, cpos⟩
    · cases hs

theorem reachable_inv {k n c : Nat} {chunks extra : Nat → Nat} (hn : 0 < n) (hc : 0 < c) {s : St} (h : Reachable k n c chunks extra s) : Inv s := by
  induction h with
  | init => exact inv_init k n c chunks extra hn hc
  | step a _ hs ih => exact step_inv ih hs

/-! ### progress: no reachable non-final state is stuck -/

theorem progress {s : St} (hi : Inv s) (hnf : s.endAllRecv = false) : ∃ a s', step s a = some s' := by
  by_cases h1 : ∃ f, f < s.k ∧ s.toSend f > 0
  · obtain ⟨f, hf, ht⟩ := h1
    exact ⟨.dispatch f 1, _, by simp only [step]; rw [if_pos ⟨hf, Nat.le_refl 1, hi.npos, ht⟩]⟩
  have hts : ∀ f, f < s.k → s.toSend f = 0 := by
    intro f hf
    apply Decidable.byContradiction
    intro hc
    exact h1 ⟨f, hf, by omega⟩
  by_cases h1u : ∃ f, f < s.k ∧ s.toSendU f > 0
  · obtain ⟨f, hf, ht⟩ := h1u
    exact ⟨.dispatchU f 1, _, by simp only [step]; rw [if_pos ⟨hf, Nat.le_refl 1, hi.npos, ht⟩]⟩
  have htsU : ∀ f, f < s.k → s.toSendU f = 0 := by
    intro f hf
    apply Decidable.byContradiction
    intro hc
    exact h1u ⟨f, hf, by omega⟩
  by_cases h2 : ∃ f, f < s.k ∧ s.endSent f = false
  · obtain ⟨f, hf, he⟩ := h2
    exact ⟨.sendEnd f, _, by simp only [step]; rw [if_pos ⟨hf, hts f hf, htsU f hf, he⟩]⟩
  have hes : ∀ f, f < s.k → s.endSent f = true := by
    intro f hf
    cases hv : s.endSent f with
    | true => rfl
    | false => exact absurd ⟨f, hf, hv⟩ h2
  by_cases h3 : ∃ f, f < s.k ∧ s.endRecv f = false
  · obtain ⟨f, hf, he⟩ := h3
    exact ⟨.recvEnd f, _, by simp only [step]; rw [if_pos ⟨hf, hes f hf, he⟩]⟩
  have her : ∀ f, f < s.k → s.endRecv f = true := by
    intro f hf
    cases hv : s.endRecv f with
    | true => rfl
    | false => exact absurd ⟨f, hf, hv⟩ h3
  by_cases h4 : ∃ f, f < s.k ∧ s.remaining f > 0
  · obtain ⟨f, hf, hr⟩ := h4
    have hc := hi.cons f hf
    rw [hts f hf] at hc
    have hpos : 0 < sumN (s.n + 1) (fun w => s.buf w f) := by simp only [inflight] at hc; omega
    obtain ⟨w, hw, hb⟩ := sumN_pos hpos
    have hv := hi.vis w f hb
    by_cases hwa : w / s.c < s.accepted (w % s.c)
    · exact ⟨.readFrame w f, _, by simp only [step]; rw [if_pos ⟨hf, hwa, hb⟩]⟩
    · exact ⟨.accept (w % s.c), _, by simp only [step]; rw [if_pos ⟨Nat.mod_lt w hi.cpos, by omega⟩]⟩
  have hrem : ∀ f, f < s.k → s.remaining f = 0 := by
    intro f hf
    apply Decidable.byContradiction
    intro hc
    exact h4 ⟨f, hf, by omega⟩
  have hds : ∀ f, f < s.k → s.doneSent f = true := fun f hf => hi.done2 f hf (hrem f hf) (her f hf)
  by_cases h5 : ∃ f, f < s.k ∧ s.doneRecv f = false
  · obtain ⟨f, hf, hd⟩ := h5
    exact ⟨.recvDone f, _, by simp only [step]; rw [if_pos ⟨hf, hds f hf, hd⟩]⟩
  have hdr : allB s.k s.doneRecv := by
    intro f hf
    cases hv : s.doneRecv f with
    | true => rfl
    | false => exact absurd ⟨f, hf, hv⟩ h5
  cases hea : s.endAllSent with
  | false => exact ⟨.sendEndAll, _, by simp only [step]; rw [if_pos ⟨hdr, hea⟩]⟩
  | true => exact ⟨.recvEndAll, _, by simp only [step]; rw [if_pos ⟨hea, hnf⟩]⟩

/-! ### every step decreases a natural measure: all runs are finite -/

def term (s : St) (f : Nat) : Nat := 2 * s.toSend f + b2n (!s.endSent f) + b2n (!s.endRecv f) + b2n (!s.doneRecv f)

/-- streams of connection `j` the receiver has not taken yet -/
def open_ (s : St) (j : Nat) : Nat := cnt s.n s.c j - s.accepted j

def termU (s : St) (f : Nat) : Nat := 2 * s.toSendU f

theorem measure_eq (s : St) :
    measure s = sumN s.k (term s) + sumN s.k (inflight s) + sumN s.k (termU s) + sumN s.k (inflightU s) + sumN s.c (open_ s) +
      b2n (!s.endAllSent) + b2n (!s.endAllRecv) := rfl

theorem measure_fin (s : St) (f : Nat) : measure (fin s f) = measure s := by
  obtain ⟨h0, h1, h2, h3, h4, h5, hU1, hU2, h6, h7, h8, h9, h10, h11, h12⟩ := fin_fields s f
  simp only [measure, inflight, inflightU, h0, h1, h2, h3, h5, hU1, hU2, h7, h8, h9, h10, h11, h12]

theorem step_measure {s s' : St} {a : Step} (hi : Inv s) (hs : step s a = some s') : measure s' < measure s := by
  cases a with
  | dispatch f w =>
    simp only [step] at hs
    split at hs
    · rename_i hc
      obtain ⟨hf, hw1, hw, hts⟩ := hc
      cases hs
      have hwn : w < s.n + 1 := by omega
      simp only [measure_eq]
      have hA := sum_change (k := s.k) (g := term s)
        (g' := term { s with toSend := upd s.toSend f (s.toSend f - 1), buf := upd s.buf w (upd (s.buf w) f (s.buf w f + 1)), visible := upd s.visible (w % s.c) (max (s.visible (w % s.c)) (w / s.c + 1)) })
        hf (by intro i hi; simp only [term]; rw [upd_other _ _ _ _ hi])
      have hB := sum_change (k := s.k) (g := inflight s)
        (g' := inflight { s with toSend := upd s.toSend f (s.toSend f - 1), buf := upd s.buf w (upd (s.buf w) f (s.buf w f + 1)), visible := upd s.visible (w % s.c) (max (s.visible (w % s.c)) (w / s.c + 1)) })
        hf (by
          intro i hi
          simp only [inflight]
          have := inflight_bufSet (s.n + 1) s.buf w f (s.buf w f + 1) i hwn
          simp only [hi, if_false, Nat.add_zero, bufSet] at this
          exact this)
      have hBf : inflight { s with toSend := upd s.toSend f (s.toSend f - 1), buf := upd s.buf w (upd (s.buf w) f (s.buf w f + 1)), visible := upd s.visible (w % s.c) (max (s.visible (w % s.c)) (w / s.c + 1)) } f
          = inflight s f + 1 := by
        simp only [inflight]
        have := inflight_bufSet (s.n + 1) s.buf w f (s.buf w f + 1) f hwn
        simp only [if_true, bufSet] at this
        omega
      have hAf : term { s with toSend := upd s.toSend f (s.toSend f - 1), buf := upd s.buf w (upd (s.buf w) f (s.buf w f + 1)), visible := upd s.visible (w % s.c) (max (s.visible (w % s.c)) (w / s.c + 1)) } f + 2
          = term s f := by
        simp only [term, upd_same]; omega
      have hC : sumN s.c (open_ { s with toSend := upd s.toSend f (s.toSend f - 1), buf := upd s.buf w (upd (s.buf w) f (s.buf w f + 1)), visible := upd s.visible (w % s.c) (max (s.visible (w % s.c)) (w / s.c + 1)) })
          = sumN s.c (open_ s) := rfl
      have hD : sumN s.k (termU { s with toSend := upd s.toSend f (s.toSend f - 1), buf := upd s.buf w (upd (s.buf w) f (s.buf w f + 1)), visible := upd s.visible (w % s.c) (max (s.visible (w % s.c)) (w / s.c + 1)) }) = sumN s.k (termU s) := rfl
      have hE : sumN s.k (inflightU { s with toSend := upd s.toSend f (s.toSend f - 1), buf := upd s.buf w (upd (s.buf w) f (s.buf w f + 1)), visible := upd s.visible (w % s.c) (max (s.visible (w % s.c)) (w / s.c + 1)) }) = sumN s.k (inflightU s) := rfl
      omega
    · cases hs
  | dispatchU f w =>
    simp only [step] at hs
    split at hs
    · rename_i hc
      obtain ⟨hf, hw1, hw, hts⟩ := hc
      cases hs
      have hwn : w < s.n + 1 := by omega
      simp only [measure_eq]
      have hA : sumN s.k (term { s with toSendU := upd s.toSendU f (s.toSendU f - 1), bufU := upd s.bufU w (upd (s.bufU w) f (s.bufU w f + 1)), visible := upd s.visible (w % s.c) (max (s.visible (w % s.c)) (w / s.c + 1)) })
          = sumN s.k (term s) := rfl
      have hB : sumN s.k (inflight { s with toSendU := upd s.toSendU f (s.toSendU f - 1), bufU := upd s.bufU w (upd (s.bufU w) f (s.bufU w f + 1)), visible := upd s.visible (w % s.c) (max (s.visible (w % s.c)) (w / s.c + 1)) })
          = sumN s.k (inflight s) := rfl
      have hC : sumN s.c (open_ { s with toSendU := upd s.toSendU f (s.toSendU f - 1), bufU := upd s.bufU w (upd (s.bufU w) f (s.bufU w f + 1)), visible := upd s.visible (w % s.c) (max (s.visible (w % s.c)) (w / s.c + 1)) })
          = sumN s.c (open_ s) := rfl
      have hD := sum_change (k := s.k) (g := termU s)
        (g' := termU { s with toSendU := upd s.toSendU f (s.toSendU f - 1), bufU := upd s.bufU w (upd (s.bufU w) f (s.bufU w f + 1)), visible := upd s.visible (w % s.c) (max (s.visible (w % s.c)) (w / s.c + 1)) })
        hf (by intro i hi; simp only [termU]; rw [upd_other _ _ _ _ hi])
      have hDf : termU { s with toSendU := upd s.toSendU f (s.toSendU f - 1), bufU := upd s.bufU w (upd (s.bufU w) f (s.bufU w f + 1)), visible := upd s.visible (w % s.c) (max (s.visible (w % s.c)) (w / s.c + 1)) } f + 2
          = termU s f := by
        simp only [termU, upd_same]; omega
      have hE := sum_change (k := s.k) (g := inflightU s)
        (g' := inflightU { s with toSendU := upd s.toSendU f (s.toSendU f - 1), bufU := upd s.bufU w (upd (s.bufU w) f (s.bufU w f + 1)), visible := upd s.visible (w % s.c) (max (s.visible (w % s.c)) (w / s.c + 1)) })
        hf (by
          intro i hi
          simp only [inflightU]
          have := inflight_bufSet (s.n + 1) s.bufU w f (s.bufU w f + 1) i hwn
          simp only [hi, if_false, Nat.add_zero, bufSet] at this
          exact this)
      have hEf : inflightU { s with toSendU := upd s.toSendU f (s.toSendU f - 1), bufU := upd s.bufU w (upd (s.bufU w) f (s.bufU w f + 1)), visible := upd s.visible (w % s.c) (max (s.visible (w % s.c)) (w / s.c + 1)) } f
          = inflightU s f + 1 := by
        simp only [inflightU]
        have := inflight_bufSet (s.n + 1) s.bufU w f (s.bufU w f + 1) f hwn
        simp only [if_true, bufSet] at this
        omega
      omega
    · cases hs
  | readFrameU w f =>
    simp only [step] at hs
    split at hs
    · rename_i hc
      obtain ⟨hf, hw, hb⟩ := hc
      cases hs
      have hmc : w % s.c < s.c := Nat.mod_lt w hi.cpos
      have hwn : w < s.n + 1 := by
        apply Decidable.byContradiction
        intro hge
        have h1 := (hi.acc _ hmc).2
        have h2 := hi.visU w f hb
        unfold cnt at h1
        have h3 : w / s.c < (s.n + s.c - w % s.c) / s.c := by omega
        have h4 := (Nat.lt_div_iff_mul_lt hi.cpos).mp h3
        have h5 := Nat.div_add_mod w s.c
        have h6 : (w / s.c) * s.c = s.c * (w / s.c) := Nat.mul_comm _ _
        omega
      simp only [measure_eq]
      have hA : sumN s.k (term { s with bufU := upd s.bufU w (upd (s.bufU w) f (s.bufU w f - 1)) }) = sumN s.k (term s) := rfl
      have hB : sumN s.k (inflight { s with bufU := upd s.bufU w (upd (s.bufU w) f (s.bufU w f - 1)) }) = sumN s.k (inflight s) := rfl
      have hC : sumN s.c (open_ { s with bufU := upd s.bufU w (upd (s.bufU w) f (s.bufU w f - 1)) }) = sumN s.c (open_ s) := rfl
      have hD : sumN s.k (termU { s with bufU := upd s.bufU w (upd (s.bufU w) f (s.bufU w f - 1)) }) = sumN s.k (termU s) := rfl
      have hE := sum_change (k := s.k) (g := inflightU s)
        (g' := inflightU { s with bufU := upd s.bufU w (upd (s.bufU w) f (s.bufU w f - 1)) })
        hf (by
          intro i hi'
          simp only [inflightU]
          have := inflight_bufSet (s.n + 1) s.bufU w f (s.bufU w f - 1) i hwn
          simp only [hi', if_false, Nat.add_zero, bufSet] at this
          exact this)
      have hEf : inflightU { s with bufU := upd s.bufU w (upd (s.bufU w) f (s.bufU w f - 1)) } f + 1 = inflightU s f := by
        simp only [inflightU]
        have := inflight_bufSet (s.n + 1) s.bufU w f (s.bufU w f - 1) f hwn
        simp only [if_true, bufSet] at this
        omega
      omega
    · cases hs
  | sendEnd f =>
    simp only [step] at hs
    split at hs
    · rename_i hc
      obtain ⟨hf, hts, htsU, hes⟩ := hc
      cases hs
      simp only [measure_eq]
      have hA := sum_change (k := s.k) (g := term s) (g' := term { s with endSent := upd s.endSent f true })
        hf (by intro i hi; simp only [term]; rw [upd_other _ _ _ _ hi])
      have hAf : term { s with endSent := upd s.endSent f true } f + 1 = term s f := by
        simp only [term, upd_same, hes, b2n]; simp; omega
      have hB : sumN s.k (inflight { s with endSent := upd s.endSent f true }) = sumN s.k (inflight s) := rfl
      have hC : sumN s.c (open_ { s with endSent := upd s.endSent f true }) = sumN s.c (open_ s) := rfl
      have hD : sumN s.k (termU { s with endSent := upd s.endSent f true }) = sumN s.k (termU s) := rfl
      have hE : sumN s.k (inflightU { s with endSent := upd s.endSent f true }) = sumN s.k (inflightU s) := rfl
      omega
    · cases hs
  | accept j =>
    simp only [step] at hs
    split at hs
    · rename_i hc
      cases hs
      have := hi.acc j hc.1
      simp only [measure_eq]
      have hA : sumN s.k (term { s with accepted := upd s.accepted j (s.accepted j + 1) }) = sumN s.k (term s) := rfl
      have hB : sumN s.k (inflight { s with accepted := upd s.accepted j (s.accepted j + 1) }) = sumN s.k (inflight s) := rfl
      have hD : sumN s.k (termU { s with accepted := upd s.accepted j (s.accepted j + 1) }) = sumN s.k (termU s) := rfl
      have hE : sumN s.k (inflightU { s with accepted := upd s.accepted j (s.accepted j + 1) }) = sumN s.k (inflightU s) := rfl
      have hC := sum_change (k := s.c) (g := open_ s) (g' := open_ { s with accepted := upd s.accepted j (s.accepted j + 1) })
        hc.1 (by intro i hi'; simp only [open_]; rw [upd_other _ _ _ _ hi'])
      have hCf : open_ { s with accepted := upd s.accepted j (s.accepted j + 1) } j + 1 = open_ s j := by
        simp only [open_, upd_same]; omega
      omega
    · cases hs
  | readFrame w f =>
    simp only [step] at hs
    split at hs
    · rename_i hc
      obtain ⟨hf, hw, hb⟩ := hc
      cases hs
      rw [measure_fin]
      have hmc : w % s.c < s.c := Nat.mod_lt w hi.cpos
      have hwn : w < s.n + 1 := by
        apply Decidable.byContradiction
        intro hge
        have h1 := (hi.acc _ hmc).2
        have h2 := hi.vis w f hb
        unfold cnt at h1
        have h3 : w / s.c < (s.n + s.c - w % s.c) / s.c := by omega
        have h4 := (Nat.lt_div_iff_mul_lt hi.cpos).mp h3
        have h5 := Nat.div_add_mod w s.c
        have h6 : (w / s.c) * s.c = s.c * (w / s.c) := Nat.mul_comm _ _
        omega
      simp only [measure_eq]
      have hA : sumN s.k (term { s with buf := upd s.buf w (upd (s.buf w) f (s.buf w f - 1)), remaining := upd s.remaining f (s.remaining f - 1) })
          = sumN s.k (term s) := rfl
      have hC : sumN s.c (open_ { s with buf := upd s.buf w (upd (s.buf w) f (s.buf w f - 1)), remaining := upd s.remaining f (s.remaining f - 1) })
          = sumN s.c (open_ s) := rfl
      have hD : sumN s.k (termU { s with buf := upd s.buf w (upd (s.buf w) f (s.buf w f - 1)), remaining := upd s.remaining f (s.remaining f - 1) }) = sumN s.k (termU s) := rfl
      have hE : sumN s.k (inflightU { s with buf := upd s.buf w (upd (s.buf w) f (s.buf w f - 1)), remaining := upd s.remaining f (s.remaining f - 1) }) = sumN s.k (inflightU s) := rfl
      have hB := sum_change (k := s.k) (g := inflight s)
        (g' := inflight { s with buf := upd s.buf w (upd (s.buf w) f (s.buf w f - 1)), remaining := upd s.remaining f (s.remaining f - 1) })
        hf (by
          intro i hi'
          simp only [inflight]
          have := inflight_bufSet (s.n + 1) s.buf w f (s.buf w f - 1) i hwn
          simp only [hi', if_false, Nat.add_zero, bufSet] at this
          exact this)
      have hBf : inflight { s with buf := upd s.buf w (upd (s.buf w) f (s.buf w f - 1)), remaining := upd s.remaining f (s.remaining f - 1) } f + 1
          = inflight s f := by
        simp only [inflight]
        have := inflight_bufSet (s.n + 1) s.buf w f (s.buf w f - 1) f hwn
        simp only [if_true, bufSet] at this
        omega
      omega
    · cases hs
  | recvEnd f =>
    simp only [step] at hs
    split at hs
    · rename_i hc
      obtain ⟨hf, hes, her⟩ := hc
      cases hs
      rw [measure_fin]
      simp only [measure_eq]
      have hA := sum_change (k := s.k) (g := term s) (g' := term { s with endRecv := upd s.endRecv f true })
        hf (by intro i hi; simp only [term]; rw [upd_other _ _ _ _ hi])
      have hAf : term { s with endRecv := upd s.endRecv f true } f + 1 = term s f := by
        simp only [term, upd_same, her, b2n]; simp; omega
      have hB : sumN s.k (inflight { s with endRecv := upd s.endRecv f true }) = sumN s.k (inflight s) := rfl
      have hC : sumN s.c (open_ { s with endRecv := upd s.endRecv f true }) = sumN s.c (open_ s) := rfl
      have hD : sumN s.k (termU { s with endRecv := upd s.endRecv f true }) = sumN s.k (termU s) := rfl
      have hE : sumN s.k (inflightU { s with endRecv := upd s.endRecv f true }) = sumN s.k (inflightU s) := rfl
      omega
    · cases hs
  | recvDone f =>
    simp only [step] at hs
    split at hs
    · rename_i hc
      obtain ⟨hf, hds, hdr⟩ := hc
      cases hs
      simp only [measure_eq]
      have hA := sum_change (k := s.k) (g := term s) (g' := term { s with doneRecv := upd s.doneRecv f true })
        hf (by intro i hi; simp only [term]; rw [upd_other _ _ _ _ hi])
      have hAf : term { s with doneRecv := upd s.doneRecv f true } f + 1 = term s f := by
        simp only [term, upd_same, hdr, b2n]; simp
      have hB : sumN s.k (inflight { s with doneRecv := upd s.doneRecv f true }) = sumN s.k (inflight s) := rfl
      have hC : sumN s.c (open_ { s with doneRecv := upd s.doneRecv f true }) = sumN s.c (open_ s) := rfl
      have hD : sumN s.k (termU { s with doneRecv := upd s.doneRecv f true }) = sumN s.k (termU s) := rfl
      have hE : sumN s.k (inflightU { s with doneRecv := upd s.doneRecv f true }) = sumN s.k (inflightU s) := rfl
      omega
    · cases hs
  | sendEndAll =>
    simp only [step] at hs
    split at hs
    · rename_i hc
      cases hs
      simp only [measure_eq]
      have hA : sumN s.k (term { s with endAllSent := true, visible := cnt s.n s.c }) = sumN s.k (term s) := rfl
      have hB : sumN s.k (inflight { s with endAllSent := true, visible := cnt s.n s.c }) = sumN s.k (inflight s) := rfl
      have hC : sumN s.c (open_ { s with endAllSent := true, visible := cnt s.n s.c }) = sumN s.c (open_ s) := rfl
      have hD : sumN s.k (termU { s with endAllSent := true, visible := cnt s.n s.c }) = sumN s.k (termU s) := rfl
      have hE : sumN s.k (inflightU { s with endAllSent := true, visible := cnt s.n s.c }) = sumN s.k (inflightU s) := rfl
      simp only [hc.2, b2n] at *
      simp
      omega
    · cases hs
  | recvEndAll =>
    simp only [step] at hs
    split at hs
    · rename_i hc
      cases hs
      simp only [measure_eq]
      have hA : sumN s.k (term { s with endAllRecv := true }) = sumN s.k (term s) := rfl
      have hB : sumN s.k (inflight { s with endAllRecv := true }) = sumN s.k (inflight s) := rfl
      have hC : sumN s.c (open_ { s with endAllRecv := true }) = sumN s.c (open_ s) := rfl
      have hD : sumN s.k (termU { s with endAllRecv := true }) = sumN s.k (termU s) := rfl
      have hE : sumN s.k (inflightU { s with endAllRecv := true }) = sumN s.k (inflightU s) := rfl
      simp only [hc.2, b2n] at *
      simp
      omega
    · cases hs

end TV.ProtoLMC
