import ThruVerif.Gen.Geometry
import ThruVerif.Model.Geometry
/-!
Bridge lemmas for C19: on the property's domain the *regenerated* Go expressions (with every
`int64`/`uint32` conversion in place) equal the plain `Nat` arithmetic the tiling lemmas are about.
This is where "no 64-bit overflow, no 32-bit truncation" is discharged rather than assumed.
-/
namespace TV.GeoBridge
open TV.GoInt

/-- the property's domain: sizes up to 10 TiB, chunk 1 .. 2^32-1, chunk count fits the 32-bit wire field -/
structure Dom (size c : Nat) : Prop where
  hs : size ≤ 10 * 2 ^ 40
  hc0 : 0 < c
  hc1 : c < 2 ^ 32
  hn : TV.Geo.chunkTotal size c < 2 ^ 32

theorem ceil_bridge (size c : Nat) (h : Dom size c) :
    wrapU 32 (wrapS 64 (Int.tdiv (wrapS 64 (wrapS 64 ((size : Int) + wrapS 64 (c : Int)) - 1)) (wrapS 64 (c : Int))))
      = (TV.Geo.chunkTotal size c : Int) := by
  obtain ⟨hs, hc0, hc1, hn⟩ := h
  have e2 : wrapS 64 (c : Int) = c := wrapS64_id (by omega) (by omega)
  have e3 : wrapS 64 ((size : Int) + c) = size + c := wrapS64_id (by omega) (by omega)
  have e4 : wrapS 64 ((size : Int) + c - 1) = size + c - 1 := wrapS64_id (by omega) (by omega)
  simp only [e2, e3, e4]
  rcases Nat.eq_zero_or_pos size with h0 | hpos
  · subst h0
    have hq : Int.tdiv ((0 : Nat) + (c : Int) - 1) (c : Int) = 0 := by
      rw [Int.tdiv_eq_ediv_of_nonneg (by omega)]
      exact Int.ediv_eq_zero_of_lt (by omega) (by omega)
    simp only [hq]
    have : wrapS 64 0 = 0 := wrapS64_id (by omega) (by decide)
    rw [this]
    simp [wrapU, TV.Geo.chunkTotal]
  · have cast : ((size : Int) + c - 1) = ((size + c - 1 : Nat) : Int) := by omega
    rw [cast, Int.tdiv_eq_ediv_of_nonneg (by omega), ← Int.natCast_ediv]
    have hq : TV.Geo.chunkTotal size c = (size + c - 1) / c := by
      have h1 : c ≠ 0 := by omega
      have h2 : size ≠ 0 := by omega
      simp [TV.Geo.chunkTotal, h1, h2]
    rw [← hq]
    have hn' : ((TV.Geo.chunkTotal size c : Nat) : Int) < 2 ^ 32 := by exact_mod_cast hn
    rw [wrapS64_id (by omega) (by omega), wrapU_id (by omega) hn']

/-- `chunkTotal` as compiled from the current source = ceiling division, on the domain. -/
theorem chunkTotal_bridge (size c : Nat) (h : Dom size c) :
    TV.Gen.chunkTotal (size : Int) (c : Int) = (TV.Geo.chunkTotal size c : Int) := by
  have hb := ceil_bridge size c h
  obtain ⟨hs, hc0, hc1, hn⟩ := h
  have hcne : (c : Int) ≠ 0 := by omega
  unfold TV.Gen.chunkTotal
  simp only [hcne, decide_false, Bool.false_eq_true, if_false]
  rcases Nat.eq_zero_or_pos size with h0 | hpos
  · subst h0; simp [TV.Geo.chunkTotal]
  · have hsz : ¬ ((size : Int) ≤ 0) := by omega
    simp only [hsz, decide_false, Bool.false_eq_true, if_false]
    have e2 : wrapS 64 (c : Int) = c := wrapS64_id (by omega) (by omega)
    simp only [e2] at hb ⊢
    exact hb

theorem recvTotal_bridge (size c : Nat) (h : Dom size c) :
    TV.Gen.recvTotal (size : Int) (c : Int) = (TV.Geo.chunkTotal size c : Int) := by
  have hb := ceil_bridge size c h
  obtain ⟨hs, hc0, hc1, hn⟩ := h
  unfold TV.Gen.recvTotal
  have e1 : wrapS 64 (size : Int) = size := wrapS64_id (by omega) (by omega)
  simp only [e1]
  exact hb

theorem sidecarTotal_bridge (size c : Nat) (h : Dom size c) :
    TV.Gen.sidecarTotalRaw (size : Int) (c : Int) = (TV.Geo.chunkTotal size c : Int) := by
  have hb := ceil_bridge size c h
  unfold TV.Gen.sidecarTotalRaw
  exact hb

theorem offset_bridge (i c : Nat) (hi : i < 2 ^ 32) (hc : c < 2 ^ 32) (hp : i * c < 2 ^ 63) :
    wrapS 64 (wrapS 64 (i : Int) * wrapS 64 (c : Int)) = ((i * c : Nat) : Int) := by
  have e1 : wrapS 64 (i : Int) = i := wrapS64_id (by omega) (by omega)
  have e2 : wrapS 64 (c : Int) = c := wrapS64_id (by omega) (by omega)
  rw [e1, e2]
  have : ((i : Int) * (c : Int)) = ((i * c : Nat) : Int) := by simp
  rw [this]
  exact wrapS64_id (by omega) (by exact_mod_cast hp)

theorem recvOffset_bridge (i c : Nat) (hi : i < 2 ^ 32) (hc : c < 2 ^ 32) (hp : i * c < 2 ^ 63) :
    TV.Gen.recvOffset (i : Int) (c : Int) = ((i * c : Nat) : Int) := by
  unfold TV.Gen.recvOffset; exact offset_bridge i c hi hc hp

theorem sendOffset_bridge (i c : Nat) (hi : i < 2 ^ 32) (hc : c < 2 ^ 32) (hp : i * c < 2 ^ 63) :
    TV.Gen.sendOffset (i : Int) (c : Int) = ((i * c : Nat) : Int) := by
  unfold TV.Gen.sendOffset; exact offset_bridge i c hi hc hp

theorem hashOffset_bridge (i c : Nat) (hi : i < 2 ^ 32) (hc : c < 2 ^ 32) (hp : i * c < 2 ^ 63) :
    TV.Gen.hashOffset (i : Int) (c : Int) = ((i * c : Nat) : Int) := by
  unfold TV.Gen.hashOffset; exact offset_bridge i c hi hc hp

/-- `chunkSizeForIndex` as compiled from the current source = `lenAt`, whenever `idx*chunk` does not
    overflow (always the case for indices the protocol uses: `idx < total`). -/
theorem lenAt_bridge (size c i : Nat) (h : Dom size c) (hi : i < 2 ^ 32) (hp : i * c < 2 ^ 63) :
    TV.Gen.chunkSizeForIndex (size : Int) (c : Int) (i : Int) = (TV.Geo.lenAt size c i : Int) := by
  obtain ⟨hs, hc0, hc1, hn⟩ := h
  have hcne : (c : Int) ≠ 0 := by omega
  have hcne' : c ≠ 0 := by omega
  unfold TV.Gen.chunkSizeForIndex TV.Geo.lenAt
  simp only [hcne, hcne', decide_false, Bool.false_eq_true, if_false]
  have e2 : wrapS 64 (c : Int) = c := wrapS64_id (by omega) (by omega)
  have eo := offset_bridge i c hi hc1 hp
  simp only [e2] at eo ⊢
  simp only [eo]
  have hmul : ((i * c : Nat) : Int) = (i : Int) * (c : Int) := by simp
  rw [hmul]
  by_cases hge : i * c ≥ size
  · have hge' : (i : Int) * (c : Int) ≥ (size : Int) := by rw [← hmul]; exact_mod_cast hge
    simp [hge', hge]
  · have hlt : ¬ ((i : Int) * (c : Int) ≥ (size : Int)) := by
      intro hh; rw [← hmul] at hh; exact hge (by exact_mod_cast hh)
    simp only [hlt, hge, decide_false, Bool.false_eq_true, if_false]
    have hsub : (size : Int) - (i : Int) * (c : Int) = ((size - i * c : Nat) : Int) := by
      rw [← hmul]; omega
    rw [hsub]
    have e5 : wrapS 64 ((size - i * c : Nat) : Int) = ((size - i * c : Nat) : Int) :=
      wrapS64_id (by omega) (by omega)
    simp only [e5]
    by_cases hshort : size - i * c < c
    · have : ((size - i * c : Nat) : Int) < (c : Int) := by exact_mod_cast hshort
      simp only [this, hshort, decide_true, if_true]
      exact wrapU_id (by omega) (by omega)
    · have : ¬ (((size - i * c : Nat) : Int) < (c : Int)) := by
        intro hh; exact hshort (by exact_mod_cast hh)
      simp only [this, hshort, decide_false, Bool.false_eq_true, if_false]

end TV.GeoBridge
