import ThruVerif.Model.BufPool

/-! Invariant of the buffer-ownership model (`Model/BufPool`) when a cancelled read is waited for. -/
namespace TV.BufPool

/-- the jobs that may still write into the buffer -/
def expectedPending (s : St) : List Nat :=
  match s.holder with
  | some (k, .reading) => if s.ownFinished then [] else [k]
  | _ => []

structure Inv (s : St) : Prop where
  pend : s.pendingIds = expectedPending s
  pool : s.inPool = true ↔ s.holder = none
  own : ∀ k, s.holder = some (k, .reading) → s.ownFinished = true → s.content = some k
  got : ∀ k, s.holder = some (k, .gotResult) → s.content = some k
  fin : s.ownFinished = true → ∃ k, s.holder = some (k, .reading)
  ok : s.wrong = 0

theorem inv_init : Inv init := by
  refine ⟨rfl, by simp [init], ?_, ?_, ?_, rfl⟩ <;> intros <;> simp_all [init]

theorem inv_step {s s' : St} {a : Step} (hI : Inv s) (h : step true s a = some s') : Inv s' := by
  obtain ⟨hp, hpool, hown, hgot, hfin, hok⟩ := hI
  cases a with
  | take =>
    simp only [step] at h
    split at h
    · rename_i hc
      injection h with h; subst h
      have hpe : s.pendingIds = [] := by rw [hp]; simp [expectedPending, hc.2]
      refine ⟨by simp [expectedPending, hpe], by simp, ?_, ?_, ?_, hok⟩
      · intro k _ hf; simp at hf
      · intro k hk; simp at hk
      · intro hf; simp at hf
    · cases h
  | runRead k =>
    simp only [step] at h
    split at h
    · rename_i hm
      injection h with h; subst h
      -- the only job that can be pending is the holder's own unfinished one
      rw [hp] at hm
      unfold expectedPending at hm hp
      cases hh : s.holder with
      | none => rw [hh] at hm; simp at hm
      | some kp =>
        obtain ⟨k0, ph⟩ := kp
        rw [hh] at hm hp
        cases ph with
        | reading =>
          simp only at hm hp
          by_cases hf : s.ownFinished = true
          · simp [hf] at hm
          · simp only [hf, Bool.false_eq_true, ↓reduceIte, List.mem_singleton] at hm hp
            subst hm
            refine ⟨?_, ?_, ?_, ?_, ?_, hok⟩
            · simp [expectedPending, hh, hp]
            · simp only; rw [hh] at hpool; exact hpool
            · intro k' hk' _
              simp only [Option.some.injEq, Prod.mk.injEq, and_true] at hk'
              subst hk'; rfl
            · intro k' hk'; simp at hk'
            · intro _; exact ⟨k, rfl⟩
        | gotResult => simp at hm
        | summed => simp at hm
    · cases h
  | result =>
    simp only [step] at h
    split at h
    · rename_i k hh
      split at h
      · rename_i hf
        injection h with h; subst h
        refine ⟨?_, ?_, ?_, ?_, ?_, hok⟩
        · simp only [expectedPending]; rw [hp]; simp [expectedPending, hh, hf]
        · simp only; rw [hh] at hpool; simpa using hpool
        · intro k' hk' _; simp at hk'
        · intro k' hk'; simp only [Option.some.injEq, Prod.mk.injEq, and_true] at hk'; subst hk'; exact hown k hh hf
        · intro hf'; simp at hf'
      · cases h
    all_goals cases h
  | sum =>
    simp only [step] at h
    split at h
    · rename_i k hh
      injection h with h; subst h
      have hc := hgot k hh
      refine ⟨?_, ?_, ?_, ?_, ?_, by simp [hc, hok]⟩
      · simp only [expectedPending]; rw [hp]; simp [expectedPending, hh]
      · simp only; rw [hh] at hpool; simpa using hpool
      · intro k' hk' _; simp at hk'
      · intro k' hk'; simp at hk'
      · intro hf; have := hfin hf; rw [hh] at this; obtain ⟨k', hk'⟩ := this; simp at hk'
    all_goals cases h
  | put =>
    simp only [step] at h
    split at h
    · rename_i k hh
      injection h with h; subst h
      refine ⟨?_, by simp, ?_, ?_, ?_, hok⟩
      · simp only [expectedPending]; rw [hp]; simp [expectedPending, hh]
      · intro k' hk'; simp at hk'
      · intro k' hk'; simp at hk'
      · intro hf; have := hfin hf; rw [hh] at this; obtain ⟨k', hk'⟩ := this; simp at hk'
    all_goals cases h
  | cancel =>
    simp only [step] at h
    split at h
    · rename_i k hh
      simp only [↓reduceIte] at h
      split at h
      · rename_i hf
        injection h with h; subst h
        refine ⟨?_, by simp, ?_, ?_, ?_, hok⟩
        · simp only [expectedPending]; rw [hp]; simp [expectedPending, hh, hf]
        · intro k' hk'; simp at hk'
        · intro k' hk'; simp at hk'
        · intro hf'; simp at hf'
      · cases h
    all_goals cases h

theorem inv_run {s s' : St} {as : List Step} (hI : Inv s) (h : run true s as = some s') : Inv s' := by
  induction as generalizing s with
  | nil => simp [run] at h; subst h; exact hI
  | cons a as ih =>
    simp only [run] at h
    split at h
    · rename_i s1 h1
      exact ih (inv_step hI h1) h
    · cases h

end TV.BufPool
