import ThruVerif.Model.Flushers

/-! Invariant of the several-flushers model (`Model/Flushers`) with the sidecar mutex held around the I/O. -/
namespace TV.Flushers

theorem get_set {l : List Pc} {i : Nat} {p : Pc} (v : Pc) (j : Nat) (h : l[i]? = some p) :
    (l.set i v)[j]? = if j = i then some v else l[j]? := by
  have hi : i < l.length := by
    rcases Nat.lt_or_ge i l.length with h' | h'
    · exact h'
    · simp [List.getElem?_eq_none h'] at h
  rw [List.getElem?_set]
  by_cases hji : j = i
  · subst hji; simp [hi]
  · have : ¬ i = j := fun e => hji e.symm
    simp [hji, this]

structure Inv (s : St) : Prop where
  /-- a flusher that is not idle holds the mutex -/
  held : ∀ (j : Nat) (p : Pc), s.pcs[j]? = some p → p ≠ Pc.idle → s.lock = some j
  snapped : ∀ (j b : Nat), s.pcs[j]? = some (Pc.snapped b) → b ∈ s.snaps
  writing : ∀ (j b : Nat), s.pcs[j]? = some (Pc.writing b) → s.tmp = some (File.torn j) ∧ b ∈ s.snaps
  wrote : ∀ (j b : Nat), s.pcs[j]? = some (Pc.wroteTmp b) → s.tmp = some (File.full b) ∧ b ∈ s.snaps
  disk : diskOk s

theorem inv_init (n : Nat) : Inv (init n) := by
  have hrep : ∀ (j : Nat) (p : Pc), (init n).pcs[j]? = some p → p = Pc.idle := by
    intro j p h
    simp only [init] at h
    rw [List.getElem?_replicate] at h
    split at h
    · injection h with h; exact h.symm
    · cases h
  refine ⟨?_, ?_, ?_, ?_, Or.inl rfl⟩
  · intro j p h hne; exact absurd (hrep j p h) hne
  · intro j b h; have := hrep j _ h; cases this
  · intro j b h; have := hrep j _ h; cases this
  · intro j b h; have := hrep j _ h; cases this

/-- with the mutex, a busy flusher is the only one -/
theorem others_idle {s : St} (hI : Inv s) {j : Nat} {p : Pc} (hp : s.pcs[j]? = some p) (hne : p ≠ Pc.idle)
    {j' : Nat} {p' : Pc} (hj : j' ≠ j) (hp' : s.pcs[j']? = some p') : p' = Pc.idle := by
  apply Decidable.byContradiction
  intro hne'
  have h1 := hI.held j p hp hne
  have h2 := hI.held j' p' hp' hne'
  rw [h1] at h2
  injection h2 with h2
  exact hj h2.symm

theorem diskOk_mono {s s' : St} (hd : s'.disk = s.disk) (hs : ∀ b, b ∈ s.snaps → b ∈ s'.snaps) (h : diskOk s) : diskOk s' := by
  rcases h with h | ⟨b, h1, h2⟩
  · exact Or.inl (hd.trans h)
  · exact Or.inr ⟨b, hd.trans h1, hs b h2⟩

theorem inv_step {s s' : St} {a : Step} (hI : Inv s) (h : step true s a = some s') : Inv s' := by
  cases a with
  | begin_ j b =>
    simp only [step] at h
    split at h
    · rename_i hc
      obtain ⟨hp, hl⟩ := hc
      have hl := hl trivial
      injection h with h; subst h
      -- nobody is busy
      have allidle : ∀ (j' : Nat) (p' : Pc), s.pcs[j']? = some p' → p' = Pc.idle := by
        intro j' p' hp'
        apply Decidable.byContradiction
        intro hne
        have := hI.held j' p' hp' hne
        rw [hl] at this
        cases this
      refine ⟨?_, ?_, ?_, ?_, ?_⟩
      · intro j' p' hp' hne
        simp only [get_set _ j' hp] at hp'
        by_cases hjj : j' = j
        · subst hjj; simp
        · simp only [hjj, ↓reduceIte] at hp'
          exact absurd (allidle j' p' hp') hne
      · intro j' b' hp'
        simp only [get_set _ j' hp] at hp'
        by_cases hjj : j' = j
        · subst hjj
          simp only [↓reduceIte, Option.some.injEq, Pc.snapped.injEq] at hp'
          subst hp'
          exact List.mem_cons_self
        · simp only [hjj, ↓reduceIte] at hp'
          have := allidle j' _ hp'
          cases this
      · intro j' b' hp'
        simp only [get_set _ j' hp] at hp'
        by_cases hjj : j' = j
        · subst hjj; simp at hp'
        · simp only [hjj, ↓reduceIte] at hp'
          have := allidle j' _ hp'
          cases this
      · intro j' b' hp'
        simp only [get_set _ j' hp] at hp'
        by_cases hjj : j' = j
        · subst hjj; simp at hp'
        · simp only [hjj, ↓reduceIte] at hp'
          have := allidle j' _ hp'
          cases this
      · exact diskOk_mono (s := s) rfl (fun b' hb' => List.mem_cons_of_mem _ hb') hI.disk
    · cases h
  | trunc j =>
    simp only [step] at h
    split at h
    · rename_i b hp
      injection h with h; subst h
      have hbusy : (Pc.snapped b) ≠ Pc.idle := by intro e; cases e
      refine ⟨?_, ?_, ?_, ?_, ?_⟩
      · intro j' p' hp' hne
        simp only [get_set _ j' hp] at hp'
        by_cases hjj : j' = j
        · subst hjj; exact hI.held j' _ hp hbusy
        · simp only [hjj, ↓reduceIte] at hp'
          exact absurd (others_idle hI hp hbusy hjj hp') hne
      · intro j' b' hp'
        simp only [get_set _ j' hp] at hp'
        by_cases hjj : j' = j
        · subst hjj; simp at hp'
        · simp only [hjj, ↓reduceIte] at hp'
          have := others_idle hI hp hbusy hjj hp'
          cases this
      · intro j' b' hp'
        simp only [get_set _ j' hp] at hp'
        by_cases hjj : j' = j
        · subst hjj
          simp only [↓reduceIte, Option.some.injEq, Pc.writing.injEq] at hp'
          subst hp'
          exact ⟨rfl, hI.snapped j' b hp⟩
        · simp only [hjj, ↓reduceIte] at hp'
          have := others_idle hI hp hbusy hjj hp'
          cases this
      · intro j' b' hp'
        simp only [get_set _ j' hp] at hp'
        by_cases hjj : j' = j
        · subst hjj; simp at hp'
        · simp only [hjj, ↓reduceIte] at hp'
          have := others_idle hI hp hbusy hjj hp'
          cases this
      · exact diskOk_mono (s := s) rfl (fun _ hb' => hb') hI.disk
    all_goals cases h
  | finish j =>
    simp only [step] at h
    split at h
    · rename_i b hp
      injection h with h; subst h
      have hbusy : (Pc.writing b) ≠ Pc.idle := by intro e; cases e
      have ⟨htmp, hsn⟩ := hI.writing j b hp
      refine ⟨?_, ?_, ?_, ?_, ?_⟩
      · intro j' p' hp' hne
        simp only [get_set _ j' hp] at hp'
        by_cases hjj : j' = j
        · subst hjj; exact hI.held j' _ hp hbusy
        · simp only [hjj, ↓reduceIte] at hp'
          exact absurd (others_idle hI hp hbusy hjj hp') hne
      · intro j' b' hp'
        simp only [get_set _ j' hp] at hp'
        by_cases hjj : j' = j
        · subst hjj; simp at hp'
        · simp only [hjj, ↓reduceIte] at hp'
          have := others_idle hI hp hbusy hjj hp'
          cases this
      · intro j' b' hp'
        simp only [get_set _ j' hp] at hp'
        by_cases hjj : j' = j
        · subst hjj; simp at hp'
        · simp only [hjj, ↓reduceIte] at hp'
          have := others_idle hI hp hbusy hjj hp'
          cases this
      · intro j' b' hp'
        simp only [get_set _ j' hp] at hp'
        by_cases hjj : j' = j
        · subst hjj
          simp only [↓reduceIte, Option.some.injEq, Pc.wroteTmp.injEq] at hp'
          subst hp'
          simp only [htmp, ↓reduceIte]
          exact ⟨trivial, hsn⟩
        · simp only [hjj, ↓reduceIte] at hp'
          have := others_idle hI hp hbusy hjj hp'
          cases this
      · exact diskOk_mono (s := s) rfl (fun _ hb' => hb') hI.disk
    all_goals cases h
  | rename j =>
    simp only [step] at h
    split at h
    · rename_i b hp
      have hbusy : (Pc.wroteTmp b) ≠ Pc.idle := by intro e; cases e
      have ⟨htmp, hsn⟩ := hI.wrote j b hp
      rw [htmp] at h
      simp only at h
      injection h with h; subst h
      refine ⟨?_, ?_, ?_, ?_, ?_⟩
      · intro j' p' hp' hne
        simp only [get_set _ j' hp] at hp'
        by_cases hjj : j' = j
        · subst hjj; exact hI.held j' _ hp hbusy
        · simp only [hjj, ↓reduceIte] at hp'
          exact absurd (others_idle hI hp hbusy hjj hp') hne
      · intro j' b' hp'
        simp only [get_set _ j' hp] at hp'
        by_cases hjj : j' = j
        · subst hjj; simp at hp'
        · simp only [hjj, ↓reduceIte] at hp'
          have := others_idle hI hp hbusy hjj hp'
          cases this
      · intro j' b' hp'
        simp only [get_set _ j' hp] at hp'
        by_cases hjj : j' = j
        · subst hjj; simp at hp'
        · simp only [hjj, ↓reduceIte] at hp'
          have := others_idle hI hp hbusy hjj hp'
          cases this
      · intro j' b' hp'
        simp only [get_set _ j' hp] at hp'
        by_cases hjj : j' = j
        · subst hjj; simp at hp'
        · simp only [hjj, ↓reduceIte] at hp'
          have := others_idle hI hp hbusy hjj hp'
          cases this
      · exact Or.inr ⟨b, rfl, hsn⟩
    all_goals cases h
  | end_ j =>
    simp only [step] at h
    split at h
    · rename_i hp
      injection h with h; subst h
      have hbusy : Pc.renamed ≠ Pc.idle := by intro e; cases e
      refine ⟨?_, ?_, ?_, ?_, ?_⟩
      · intro j' p' hp' hne
        simp only [get_set _ j' hp] at hp'
        by_cases hjj : j' = j
        · subst hjj
          simp only [↓reduceIte, Option.some.injEq] at hp'
          exact absurd hp'.symm hne
        · simp only [hjj, ↓reduceIte] at hp'
          exact absurd (others_idle hI hp hbusy hjj hp') hne
      · intro j' b' hp'
        simp only [get_set _ j' hp] at hp'
        by_cases hjj : j' = j
        · subst hjj; simp at hp'
        · simp only [hjj, ↓reduceIte] at hp'
          have := others_idle hI hp hbusy hjj hp'
          cases this
      · intro j' b' hp'
        simp only [get_set _ j' hp] at hp'
        by_cases hjj : j' = j
        · subst hjj; simp at hp'
        · simp only [hjj, ↓reduceIte] at hp'
          have := others_idle hI hp hbusy hjj hp'
          cases this
      · intro j' b' hp'
        simp only [get_set _ j' hp] at hp'
        by_cases hjj : j' = j
        · subst hjj; simp at hp'
        · simp only [hjj, ↓reduceIte] at hp'
          have := others_idle hI hp hbusy hjj hp'
          cases this
      · exact diskOk_mono (s := s) rfl (fun _ hb' => hb') hI.disk
    · cases h
  | kill =>
    simp only [step] at h
    injection h with h; subst h
    have hidle : ∀ (j : Nat) (p : Pc), (s.pcs.map (fun _ => Pc.idle))[j]? = some p → p = Pc.idle := by
      intro j p hp
      rw [List.getElem?_map] at hp
      cases hq : s.pcs[j]? with
      | none => rw [hq] at hp; cases hp
      | some q => rw [hq] at hp; simp at hp; exact hp.symm
    refine ⟨?_, ?_, ?_, ?_, ?_⟩
    · intro j p hp hne; exact absurd (hidle j p hp) hne
    · intro j b hp; have := hidle j _ hp; cases this
    · intro j b hp; have := hidle j _ hp; cases this
    · intro j b hp; have := hidle j _ hp; cases this
    · exact diskOk_mono (s := s) rfl (fun _ hb' => hb') hI.disk

theorem inv_run {s s' : St} {as : List Step} (hI : Inv s) (h : run true s as = some s') : Inv s' := by
  induction as generalizing s with
  | nil => simp [run] at h; subst h; exact hI
  | cons a as ih =>
    simp only [run] at h
    split at h
    · rename_i s1 h1
      exact ih (inv_step hI h1) h
    · cases h

end TV.Flushers
