import ThruVerif.Model.Once
import Mathlib.Data.List.Nodup
import Mathlib.Data.List.Perm.Subperm

/-! Invariant of the finalisation gate (`Model/Once`, atomic test-and-set). -/
namespace TV.Once

structure Inv (s : St) : Prop where
  notest : s.testing = []
  nodup : (s.passed.map Prod.fst ++ s.counted).Nodup
  isdone : ∀ f, f ∈ s.passed.map Prod.fst ++ s.counted → f ∈ s.done
  count : s.completed = s.counted.length

theorem inv_init : Inv init := ⟨rfl, by simp [init], by simp [init], rfl⟩

theorem inv_step {s s' : St} {a : Step} (hI : Inv s) (h : step true s a = some s') : Inv s' := by
  obtain ⟨hT, hN, hD, hC⟩ := hI
  cases a with
  | gate f ok =>
    simp only [step] at h
    split at h
    · injection h with h; subst h; exact ⟨hT, hN, hD, hC⟩
    · rename_i hnd
      simp only [↓reduceIte] at h
      injection h with h; subst h
      refine ⟨hT, ?_, ?_, hC⟩
      · simp only [List.map_cons, List.cons_append]
        exact List.nodup_cons.mpr ⟨fun hm => hnd (hD f hm), hN⟩
      · intro g hg
        simp only [List.map_cons, List.cons_append, List.mem_cons] at hg
        rcases hg with hg | hg
        · subst hg; exact List.mem_cons_self
        · exact List.mem_cons_of_mem _ (hD g hg)
  | set f ok =>
    simp only [step] at h
    split at h
    · rename_i hm; rw [hT] at hm; cases hm
    · cases h
  | count f ok =>
    simp only [step] at h
    split at h
    · rename_i hm
      injection h with h; subst h
      have hperm : List.Perm (s.passed.map Prod.fst) (f :: (s.passed.erase (f, ok)).map Prod.fst) := by
        have := (List.perm_cons_erase hm).map Prod.fst
        simpa using this
      have hperm2 : (s.passed.map Prod.fst ++ s.counted).Perm (f :: ((s.passed.erase (f, ok)).map Prod.fst ++ s.counted)) := by
        have := hperm.append_right s.counted
        simpa using this
      have hN2 := hperm2.nodup_iff.mp hN
      cases ok with
      | false =>
        refine ⟨hT, ?_, ?_, by simpa using hC⟩
        · simp only [Bool.false_eq_true, ↓reduceIte]
          exact (List.nodup_cons.mp hN2).2
        · intro g hg
          simp only [Bool.false_eq_true, ↓reduceIte] at hg
          exact hD g (hperm2.symm.subset (List.mem_cons_of_mem _ hg))
      | true =>
        refine ⟨hT, ?_, ?_, by simp [hC]⟩
        · simp only [↓reduceIte]
          exact (List.perm_middle.symm.nodup_iff).mp hN2
        · intro g hg
          simp only [↓reduceIte] at hg
          have : g ∈ f :: ((s.passed.erase (f, true)).map Prod.fst ++ s.counted) := List.perm_middle.subset hg
          exact hD g (hperm2.symm.subset this)
    · cases h

theorem inv_run {s s' : St} {as : List Step} (hI : Inv s) (h : run true s as = some s') : Inv s' := by
  induction as generalizing s with
  | nil => simp [run] at h; subst h; exact hI
  | cons a as ih =>
    simp only [run] at h
    split at h
    · rename_i s1 h1
      exact ih (inv_step hI h1) h
    · cases h

/-- only files that went through the gate are ever counted -/
theorem counted_from_gates {s s' : St} {as : List Step} (total : Nat) (hI : Inv s)
    (hs : ∀ f ∈ s.passed.map Prod.fst ++ s.counted, f < total)
    (hg : ∀ f ok, Step.gate f ok ∈ as → f < total) (h : run true s as = some s') :
    ∀ f ∈ s'.passed.map Prod.fst ++ s'.counted, f < total := by
  induction as generalizing s with
  | nil => simp [run] at h; subst h; exact hs
  | cons a as ih =>
    simp only [run] at h
    split at h
    · rename_i s1 h1
      refine ih (inv_step hI h1) ?_ (fun f ok hm => hg f ok (List.mem_cons_of_mem _ hm)) h
      cases a with
      | gate f ok =>
        have hft := hg f ok List.mem_cons_self
        simp only [step] at h1
        split at h1
        · injection h1 with h1; subst h1; exact hs
        · simp only [↓reduceIte] at h1
          injection h1 with h1; subst h1
          intro g hgm
          simp only [List.map_cons, List.cons_append, List.mem_cons] at hgm
          rcases hgm with hgm | hgm
          · subst hgm; exact hft
          · exact hs g hgm
      | set f ok =>
        simp only [step] at h1
        split at h1
        · rename_i hm; rw [hI.notest] at hm; cases hm
        · cases h1
      | count f ok =>
        simp only [step] at h1
        split at h1
        · rename_i hm
          injection h1 with h1; subst h1
          intro g hgm
          apply hs
          simp only [List.mem_append, List.mem_map] at hgm ⊢
          rcases hgm with ⟨x, hx, hxe⟩ | hgm
          · left; exact ⟨x, List.mem_of_mem_erase hx, hxe⟩
          · cases ok with
            | false => simp only [Bool.false_eq_true, ↓reduceIte] at hgm; right; exact hgm
            | true =>
              simp only [↓reduceIte, List.mem_cons] at hgm
              rcases hgm with hgm | hgm
              · left; exact ⟨(f, true), hm, hgm.symm⟩
              · right; exact hgm
        · cases h1
    · cases h

end TV.Once
