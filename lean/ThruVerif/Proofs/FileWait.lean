import ThruVerif.Model.FileWait

/-! Helper lemmas and the inductive invariant of the FileBegin wake-up protocol (`Model/FileWait`). -/
namespace TV.FileWait

theorem get_set {l : List RPc} {i : Nat} {p : RPc} (v : RPc) (j : Nat) (h : l[i]? = some p) :
    (l.set i v)[j]? = if j = i then some v else l[j]? := by
  have hi : i < l.length := by
    rcases Nat.lt_or_ge i l.length with h' | h'
    · exact h'
    · simp [List.getElem?_eq_none h'] at h
  rw [List.getElem?_set]
  by_cases hji : j = i
  · subst hji; simp [hi]
  · have : ¬ i = j := fun e => hji e.symm
    simp [hji, this]

theorem sum_set {l : List RPc} {i : Nat} {p : RPc} (v : RPc) (h : l[i]? = some p) :
    ((l.set i v).map rank).sum + rank p = (l.map rank).sum + rank v := by
  induction l generalizing i with
  | nil => simp at h
  | cons x xs ih =>
    cases i with
    | zero =>
      simp only [List.getElem?_cons_zero, Option.some.injEq] at h
      subst h
      simp only [List.set, List.map_cons, List.sum_cons]
      omega
    | succ k =>
      simp only [List.getElem?_cons_succ] at h
      have := ih h
      simp only [List.set, List.map_cons, List.sum_cons]
      omega

theorem measure_set {s : St} {i : Nat} {p : RPc} (v : RPc) (w c : List Nat) (hp : s.pcs[i]? = some p) (hv : rank v < rank p) :
    measure { s with pcs := s.pcs.set i v, waiters := w, closed := c } < measure s := by
  have := sum_set v hp
  simp only [measure]
  omega

theorem mem_set_go {l : List RPc} {i : Nat} {v : RPc} (h : ∀ p ∈ l, p = RPc.go) (hv : v = .go) : ∀ p ∈ l.set i v, p = RPc.go := by
  intro p hp
  rcases List.mem_or_eq_of_mem_set hp with h' | h'
  · exact h p h'
  · exact h'.trans hv

/-- the invariant: a reader past its registration has its channel in the registry or closed; once `signal` ran, a channel still in
the registry belongs to a reader that registered afterwards - it is not blocked (it saw, or will see, the state in its predicate) -/
structure Inv (s : St) : Prop where
  chan : ∀ i, (s.pcs[i]? = some .registered ∨ s.pcs[i]? = some .blocked) → i ∈ s.waiters ∨ i ∈ s.closed
  late : s.hpc = .signalled → ∀ i ∈ s.waiters, s.pcs[i]? ≠ some .blocked
  early : s.hpc = .before → s.closed = []

theorem inv_init (n : Nat) : Inv (init n) := by
  refine ⟨?_, ?_, ?_⟩
  · intro i h
    simp only [init] at h
    rcases h with h | h <;>
    · rw [List.getElem?_replicate] at h
      split at h <;> simp at h
  · intro h; simp [init] at h
  · intro _; rfl

theorem inv_step {s s' : St} {a : Step} (hI : Inv s) (h : step true s a = some s') : Inv s' := by
  obtain ⟨hc, hl, he⟩ := hI
  cases a with
  | lookup i =>
    simp only [step] at h
    split at h
    · rename_i hp
      injection h with h; subst h
      refine ⟨?_, ?_, he⟩
      · intro j hj
        simp only [get_set _ j hp] at hj
        by_cases hji : j = i
        · subst hji
          simp at hj
          split at hj <;> simp at hj
        · simp only [hji, ↓reduceIte] at hj
          exact hc j hj
      · intro hs j hj
        simp only [get_set _ j hp]
        by_cases hji : j = i
        · subst hji
          simp [stateKnown, show s.hpc = HPc.signalled from hs]
        · simp only [hji, ↓reduceIte]
          exact hl hs j hj
    · cases h
  | register i =>
    simp only [step] at h
    split at h
    · rename_i hp
      injection h with h; subst h
      refine ⟨?_, ?_, he⟩
      · intro j hj
        simp only [get_set _ j hp] at hj
        by_cases hji : j = i
        · subst hji
          exact Or.inl (List.mem_cons_self)
        · simp only [hji, ↓reduceIte] at hj
          rcases hc j hj with h' | h'
          · exact Or.inl (List.mem_cons_of_mem _ h')
          · exact Or.inr h'
      · intro hs j hj
        simp only [get_set _ j hp]
        by_cases hji : j = i
        · subst hji
          simp
        · simp only [hji, ↓reduceIte]
          rcases List.mem_cons.mp hj with h' | h'
          · exact absurd h' hji
          · exact hl hs j h'
    · cases h
  | recheck i =>
    simp only [step] at h
    split at h
    · rename_i hp
      injection h with h; subst h
      refine ⟨?_, ?_, he⟩
      · intro j hj
        simp only [get_set _ j hp] at hj
        by_cases hji : j = i
        · subst hji
          exact hc j (Or.inl hp)
        · simp only [hji, ↓reduceIte] at hj
          exact hc j hj
      · intro hs j hj
        simp only [get_set _ j hp]
        by_cases hji : j = i
        · subst hji
          simp [stateKnown, show s.hpc = HPc.signalled from hs]
        · simp only [hji, ↓reduceIte]
          exact hl hs j hj
    · cases h
  | wake i =>
    simp only [step] at h
    split at h
    · rename_i hp
      injection h with h; subst h
      refine ⟨?_, ?_, he⟩
      · intro j hj
        simp only [get_set _ j hp.1] at hj
        by_cases hji : j = i
        · subst hji
          simp at hj
        · simp only [hji, ↓reduceIte] at hj
          exact hc j hj
      · intro hs j hj
        simp only [get_set _ j hp.1]
        by_cases hji : j = i
        · subst hji
          simp
        · simp only [hji, ↓reduceIte]
          exact hl hs j hj
    · cases h
  | store =>
    simp only [step] at h
    split at h
    · injection h with h; subst h
      exact ⟨hc, fun hs => by simp at hs, fun hs => by simp at hs⟩
    · cases h
  | signal =>
    simp only [step] at h
    split at h
    · injection h with h; subst h
      refine ⟨?_, ?_, fun hs => by simp at hs⟩
      · intro j hj
        rcases hc j hj with h' | h'
        · exact Or.inr (List.mem_append_left _ h')
        · exact Or.inr (List.mem_append_right _ h')
      · intro _ j hj
        simp at hj
    · cases h

theorem inv_run {s s' : St} {as : List Step} (hI : Inv s) (h : run true s as = some s') : Inv s' := by
  induction as generalizing s with
  | nil => simp [run] at h; subst h; exact hI
  | cons a as ih =>
    simp only [run] at h
    split at h
    · rename_i s1 h1
      exact ih (inv_step hI h1) h
    · cases h

/-- every step lowers the measure (recheck or not) -/
theorem measure_step {r : Bool} {s s' : St} {a : Step} (h : step r s a = some s') : measure s' < measure s := by
  cases a with
  | lookup i =>
    simp only [step] at h
    split at h
    · rename_i hp
      injection h with h; subst h
      exact measure_set _ s.waiters s.closed hp (by split <;> decide)
    · cases h
  | register i =>
    simp only [step] at h
    split at h
    · rename_i hp
      injection h with h; subst h
      exact measure_set _ (i :: s.waiters) s.closed hp (by split <;> decide)
    · cases h
  | recheck i =>
    simp only [step] at h
    split at h
    · rename_i hp
      injection h with h; subst h
      exact measure_set _ s.waiters s.closed hp (by split <;> decide)
    · cases h
  | wake i =>
    simp only [step] at h
    split at h
    · rename_i hp
      injection h with h; subst h
      exact measure_set _ s.waiters s.closed hp.1 (by decide)
    · cases h
  | store =>
    simp only [step] at h
    split at h
    · rename_i hp
      injection h with h; subst h
      simp [measure, hp, hrank]
    · cases h
  | signal =>
    simp only [step] at h
    split at h
    · rename_i hp
      injection h with h; subst h
      simp [measure, hp, hrank]
    · cases h

theorem exists_not_go {l : List RPc} (h : ¬ ∀ p ∈ l, p = RPc.go) : ∃ (i : Nat) (p : RPc), l[i]? = some p ∧ p ≠ RPc.go := by
  induction l with
  | nil => exact absurd (fun p hp => by cases hp) h
  | cons x xs ih =>
    by_cases hx : x = RPc.go
    · have : ¬ ∀ p ∈ xs, p = RPc.go := by
        intro h'
        apply h
        intro p hp
        rcases List.mem_cons.mp hp with e | e
        · exact e.trans hx
        · exact h' p e
      obtain ⟨i, p, h1, h2⟩ := ih this
      exact ⟨i + 1, p, by simpa using h1, h2⟩
    · exact ⟨0, x, by simp, hx⟩

/-- progress: in a state satisfying the invariant that is not finished, some step is enabled -/
theorem progress {s : St} (hI : Inv s) (hd : ¬ done s) : ∃ a s', step true s a = some s' := by
  by_cases hh : s.hpc = .signalled
  · have hng : ¬ ∀ p ∈ s.pcs, p = RPc.go := fun h => hd ⟨hh, h⟩
    obtain ⟨i, p, hp, hne⟩ := exists_not_go hng
    cases p with
    | start => exact ⟨.lookup i, _, by simp only [step, hp, ↓reduceIte]; rfl⟩
    | sawNone => exact ⟨.register i, _, by simp only [step, hp, ↓reduceIte]; rfl⟩
    | registered => exact ⟨.recheck i, _, by simp only [step, hp, ↓reduceIte]; rfl⟩
    | blocked =>
      have hc : i ∈ s.closed := by
        rcases hI.chan i (Or.inr hp) with h' | h'
        · exact absurd hp (hI.late hh i h')
        · exact h'
      exact ⟨.wake i, _, by simp only [step, hp, hc, and_self, ↓reduceIte]; rfl⟩
    | go => exact absurd rfl hne
  · cases hpc : s.hpc with
    | before => exact ⟨.store, _, by simp only [step, hpc, ↓reduceIte]; rfl⟩
    | stored => exact ⟨.signal, _, by simp only [step, hpc, ↓reduceIte]; rfl⟩
    | signalled => exact absurd hpc hh

theorem run_measure {r : Bool} {s s' : St} {as : List Step} (h : run r s as = some s') : measure s' + as.length ≤ measure s := by
  induction as generalizing s with
  | nil => simp [run] at h; subst h; simp
  | cons a as ih =>
    simp only [run] at h
    split at h
    · rename_i s1 h1
      have := ih h
      have := measure_step h1
      simp only [List.length_cons]
      omega
    · cases h

theorem measure_init (n : Nat) : measure (init n) = 4 * n + 2 := by
  simp only [measure, init, hrank]
  induction n with
  | zero => simp
  | succ k ih =>
    simp only [List.replicate_succ, List.map_cons, List.sum_cons, rank] at ih ⊢
    omega

end TV.FileWait
