import ThruVerif.Driver.Util
import ThruVerif.Model.Resume
/-! line-protocol command for the resume negotiation (C04/C06): `plan <total> <tail> <verify01> <hashOn01> <bits> <last> <good|bad|unknown|zero>` -/
namespace TV.Driver
open TV.Resume

def handlePlan (ws : List String) : String :=
  match ws with
  | [t, tail, v, ho, bits, last, hash] =>
    match t.toNat?, tail.toNat?, bool01 v, bool01 ho, last.toNat? with
    | some total, some tail, some verify, some hashOn, some last =>
      if hash != "good" && hash != "bad" && hash != "unknown" && hash != "zero" then "bad-op" else
      let b := bits.toList.map (· == '1')
      let info : Info := { total, bitmap := b, lastVerified := last, hashKnown := hash != "unknown", hashGood := hash == "good" }
      let p := plan { tail, verify, hashOn } info
      let sentM := (List.range total).flatMap fun i =>
        (if skipped info p i then [] else [i]) ++ (if resend info p && i == last then [i] else [])
      let nskip := ((List.range total).filter (skipped info p)).length
      s!"sent={sentM} skipped={nskip} verified={last}"
    | _, _, _, _, _ => "bad-op"
  | _ => "bad-op"

end TV.Driver
