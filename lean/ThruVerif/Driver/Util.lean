/-! helpers for the line-protocol driver (core Lean only) -/
namespace TV.Driver

def hexDigit (c : Char) : Option Nat :=
  if '0' ≤ c ∧ c ≤ '9' then some (c.toNat - '0'.toNat)
  else if 'a' ≤ c ∧ c ≤ 'f' then some (c.toNat - 'a'.toNat + 10)
  else if 'A' ≤ c ∧ c ≤ 'F' then some (c.toNat - 'A'.toNat + 10)
  else none

/-- "-" is the empty byte string; otherwise lowercase hex -/
def unhex (s : String) : Option (List UInt8) :=
  if s == "-" then some [] else
  let rec go : List Char → List UInt8 → Option (List UInt8)
    | [], acc => some acc.reverse
    | [_], _ => none
    | a :: b :: rest, acc =>
      match hexDigit a, hexDigit b with
      | some x, some y => go rest (UInt8.ofNat (x * 16 + y) :: acc)
      | _, _ => none
  go s.toList []

def hexNib (n : Nat) : Char :=
  if n < 10 then Char.ofNat ('0'.toNat + n) else Char.ofNat ('a'.toNat + n - 10)

def hex (bs : List UInt8) : String :=
  if bs.isEmpty then "-" else
  String.ofList (bs.flatMap fun b => [hexNib (b.toNat / 16), hexNib (b.toNat % 16)])

def natList (ws : List String) : Option (List Nat) := ws.mapM String.toNat?
def intList (ws : List String) : Option (List Int) := ws.mapM String.toInt?

def bool01 (s : String) : Option Bool :=
  if s == "1" then some true else if s == "0" then some false else none

def showBool (b : Bool) : String := if b then "1" else "0"

def insertSorted (x : String) : List String → List String
  | [] => [x]
  | y :: ys => if x < y then x :: y :: ys else y :: insertSorted x ys

def sortStrings (xs : List String) : List String := xs.foldl (fun acc x => insertSorted x acc) []

end TV.Driver
