import ThruVerif.Driver.Util
import ThruVerif.Model.Scan
/-! line-protocol command for the manifest scan (C13) -/
namespace TV.Driver
open TV TV.Scan

def parseElems (s : String) : Option (List Bytes) :=
  if s == "." then some [] else (s.splitOn "/").mapM unhex

def parseKind (s : String) : Option Kind :=
  match s.splitOn ":" with
  | ["f", n, m] => do let n ← n.toNat?; let m ← m.toNat?; some (.file n m)
  | ["d", m] => m.toNat?.map Kind.dir
  | ["l"] => some .link
  | ["o"] => some .other
  | _ => none

def parseTop (s : String) : Option Top :=
  match s.splitOn ":" with
  | ["f", n, m] => do let n ← n.toNat?; let m ← m.toNat?; some (.file n m)
  | ["d", m, w] => do let m ← m.toNat?; let w ← bool01 w; some (.dir m w)
  | ["m"] => some .missing
  | _ => none

partial def parseScan (ws : List String) (sels : List Sel) (tab : List Entry) : Option (List Sel × List Entry) :=
  match ws with
  | [] => some (sels.reverse, tab.reverse)
  | "S" :: b :: a :: t :: rest =>
    match unhex b, parseElems a, parseTop t with
    | some b, some a, some t => parseScan rest (⟨b, a, t⟩ :: sels) tab
    | _, _, _ => none
  | "E" :: p :: k :: rest =>
    match parseElems p, parseKind k with
    | some p, some k => parseScan rest sels (⟨p, k⟩ :: tab)
    | _, _ => none
  | _ => none

def strBytes (s : String) : Bytes := s.toUTF8.toList

def hex16 (n : Nat) : String :=
  let h := TV.Path.hexOf 17 n
  String.ofList ((List.replicate (16 - h.length) '0') ++ h.map (fun b => Char.ofNat b.toNat))

/-- `computeID`: FNV-1a 64 of "path|size|mtime|isdir", 16 hex digits -/
def itemID (it : Item) : String :=
  hex16 (TV.Path.fnv1a64 (it.rel ++ strBytes s!"|{it.size}|{it.mtime}|{if it.isDir then "true" else "false"}"))

def handleScan (ws : List String) : String :=
  match parseScan ws [] [] with
  | none => "bad-op"
  | some (sels, tab) =>
    match scanPaths tab sels with
    | none => "none"
    | some m =>
      let items := m.items.map fun it => s!"{hex it.rel}:{it.size}:{showBool it.isDir}:{itemID it}"
      s!"items={String.intercalate "," items} fc={m.fileCount} dc={m.folderCount} tb={m.totalBytes}"

/-- `topnames <basehex>...` -/
def handleTopNames (ws : List String) : String :=
  match ws.mapM unhex with
  | some bs => match topNames bs with
    | some ns => String.intercalate " " (ns.map hex)
    | none => "none"
  | none => "bad-op"

end TV.Driver
