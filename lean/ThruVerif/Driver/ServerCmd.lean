import ThruVerif.Driver.Util
import ThruVerif.Driver.HubCmd
import ThruVerif.Model.Server
/-! line-protocol commands for the signaling-server model (C14): `store`, `srv`, `bucket`, `connlim` -/
namespace TV.Driver
open TV.Server

def usc (s : String) : String := s.map (fun c => if c == ' ' then '_' else c)

/-- `store <ttl> op…` with `c:<max>:<c1,c2,…>`, `g:<code>`, `x:<id>`, `n`, `a:<ms>` -/
def storeLoop (st : Store) (now : Nat) (ops : List String) (acc : List String) : String :=
  match ops with
  | [] => String.intercalate " " acc.reverse
  | o :: os =>
    match o.splitOn ":" with
    | ["c", mx, cs] =>
      match mx.toNat?, (cs.splitOn ",").mapM String.toNat? with
      | some mx, some cands =>
        match st.create mx now cands with
        | (st', .ok s) => storeLoop st' now os (s!"ok:{s.id}:{s.code}" :: acc)
        | (st', .limit) => storeLoop st' now os ("limit" :: acc)
        | (st', .exhausted) => storeLoop st' now os ("exhausted" :: acc)
      | _, _ => "bad-op"
    | ["g", c] =>
      match c.toNat? with
      | some c =>
        match st.getByCode c now with
        | (st', some s) => storeLoop st' now os (s!"some:{s.id}" :: acc)
        | (st', none) => storeLoop st' now os ("none" :: acc)
      | none => "bad-op"
    | ["x", i] =>
      match i.toNat? with
      | some i => storeLoop (st.delete i) now os ("-" :: acc)
      | none => "bad-op"
    | ["n"] => storeLoop st now os (toString st.count :: acc)
    | ["a", d] =>
      match d.toNat? with
      | some d => storeLoop st (now + d) os ("-" :: acc)
      | none => "bad-op"
    | _ => "bad-op"

def handleStore (ws : List String) : String :=
  match ws with
  | t :: ops =>
    match t.toNat? with
    | some ttl => storeLoop ⟨[], [], ttl, 1⟩ 1000000 ops []
    | none => "bad-op"
  | _ => "bad-op"

structure SrvD where
  h : HSt
  now : Nat
  codes : List (Nat × Nat)       -- session id -> join code
  timers : List Nat              -- armed expiry timers
  nconn : Nat
  deriving Repr

def showOut : Out → String
  | .created s => s!"201:{s.id}"
  | .bad m => s!"400:{usc m}"
  | .notFound => "404:invalid_or_expired_join_code"
  | .tooMany m => s!"429:{usc m}"
  | .opened sid => s!"ok:{sid}"
  | .closed hl => s!"closed:{showBool hl}"
  | .fired => "fired"
  | .stuck => "stuck"

def parseRole (s : String) : Role := if s == "s" then .sender else if s == "r" then .receiver else .other

def parseMr (s : String) : Option Int := match s.toInt? with | some n => some n | none => some 0

def natsCsv (l : List Nat) : String := String.intercalate "," (l.map toString)


/-- fire every armed timer whose session has expired, oldest first; returns the connections kicked -/
def fireTimers (d : SrvD) : SrvD × List Nat :=
  let due := d.timers.filter (fun sid =>
    match d.h.st.store.sessions.find? (fun x => x.id == sid) with
    | some s => s.expired d.now
    | none => true)
  due.foldl (fun (acc : SrvD × List Nat) sid =>
    let before := acc.1.h.socks.map (·.conn)
    let h' := (handle acc.1.h (.timer sid)).1
    let after := h'.socks.map (·.conn)
    ({ acc.1 with h := h', timers := acc.1.timers.filter (· != sid) }, acc.2 ++ before.filter (fun c => !after.contains c))) (d, [])

def srvLoop (d : SrvD) (evs : List String) (acc : List String) : String :=
  match evs with
  | [] => String.intercalate " " acc.reverse
  | e :: es =>
    match e.splitOn ":" with
    | "c" :: rest | "cm" :: rest =>
      let mr : Option Int := match rest with | [] => none | r :: _ => parseMr r
      let cand := 1000 + d.h.st.store.nextId
      let (h', o, _) := handle d.h (.post mr d.now [cand])
      let d' := match o with
        | .created s => { d with h := h', codes := d.codes ++ [(s.id, s.code)], timers := if s.expires != 0 then d.timers ++ [s.id] else d.timers }
        | _ => { d with h := h' }
      srvLoop d' es (showOut o :: acc)
    | "w" :: sess :: peer :: role :: rest =>
      let code : Nat := if sess == "-" then 0 else
        match sess.toNat? with
        | some i => match d.codes.find? (fun c => c.1 == i) with | some c => c.2 | none => 999999
        | none => 999999
      let p : Nat := if peer == "-" then 0 else ((peer.drop 1).toString.toNat?).getD 0
      let mr : Option Int := match rest with | [] => none | r :: _ => parseMr r
      let conn := d.nconn + 1
      let (h', o, _) := handle d.h (.wsOpen code p (parseRole role) mr conn d.now)
      srvLoop { d with h := h', nconn := conn } es (showOut o :: acc)
    | ["d", c] =>
      match c.toNat? with
      | some c =>
        match d.h.socks.find? (fun m => m.conn == c) with
        | some m =>
          let (h', o, _) := handle d.h (.wsClose c)
          let timers := if m.role = .sender then d.timers.filter (· != m.sid) else d.timers
          srvLoop { d with h := h', timers := timers } es (showOut o :: acc)
        | none => srvLoop d es ("nop" :: acc)
      | none => "bad-op"
    | ["t", ms] =>
      match ms.toNat? with
      | some ms =>
        let (d', kicked) := fireTimers { d with now := d.now + ms }
        srvLoop d' es (s!"t:{natsCsv (sortNat kicked)}" :: acc)
      | none => "bad-op"
    | ["m", c, size] =>
      match c.toNat?, size.toNat? with
      | some c, some size =>
        match d.h.socks.find? (fun m => m.conn == c) with
        | some m =>
          if msgAccepted d.h.st.cfg size then srvLoop d es ("kept" :: acc)
          else
            let (h', _, _) := handle d.h (.wsClose c)
            let timers := if m.role = .sender then d.timers.filter (· != m.sid) else d.timers
            srvLoop { d with h := h', timers := timers } es ("dropped" :: acc)
        | none => srvLoop d es ("nop" :: acc)
      | _, _ => "bad-op"
    | _ => "bad-op"

/-- `srv <maxSessions> <maxRecv> <maxWS> <maxMsg> <ttl ms> ev…` -/
def handleSrv (ws : List String) : String :=
  match ws with
  | a :: b :: c :: m :: t :: evs =>
    match natList [a, b, c, m, t] with
    | some [a, b, c, m, t] => srvLoop ⟨hinit ⟨a, b, c, m⟩ t, 1000000, [], [], 0⟩ evs []
    | _ => "bad-op"
  | _ => "bad-op"

/-- `bucket <rate milli-tokens/s> <burst> <dt ms>…` -/
def handleBucket (ws : List String) : String :=
  match natList ws with
  | some (rate :: burst :: dts) =>
    let rec go (b : Bucket) : List Nat → List Char
      | [] => []
      | dt :: r => let (b', ok) := b.allow 1000000 dt; (if ok then '1' else '0') :: go b' r
    "r=" ++ String.ofList (go (Bucket.new 1000000 rate burst) dts)
  | _ => "bad-op"

/-- `connlim <limit> a|r…` -/
def handleConnLim (ws : List String) : String :=
  match ws with
  | l :: ops =>
    match l.toNat? with
    | some limit =>
      let rec go (inUse : Nat) : List String → List Char × Nat
        | [] => ([], inUse)
        | o :: r =>
          if o == "a" then
            match connRun limit inUse [true] with
            | (n, [ok]) => let (cs, f) := go n r; ((if ok then '1' else '0') :: cs, f)
            | (n, _) => go n r
          else let (cs, f) := go (connRun limit inUse [false]).1 r; ('-' :: cs, f)
      let (cs, f) := go 0 ops
      s!"r={String.ofList cs} inuse={f}"
    | none => "bad-op"
  | _ => "bad-op"

end TV.Driver
