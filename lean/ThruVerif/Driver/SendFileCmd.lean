import ThruVerif.Driver.Util
import ThruVerif.Model.SendFile
import ThruVerif.Model.Sched
/-! line-protocol commands for the sender dispatch machine and the scheduler (C17) -/
namespace TV.Driver
open TV.SendFile

def parseBits (s : String) : List Bool := s.toList.map (· == '1')

def parseSfOp (w : String) : Option Op :=
  match w.splitOn ":" with
  | ["t"] => some .take
  | ["f"] => some .finish
  | ["e"] => some .tryEnd
  | ["v"] => some .verifyBegin
  | ["k"] => some (.verdict false 0)
  | ["m", c] => c.toNat?.map (Op.verdict true)
  | ["p", bits, ff] => ff.toNat?.map (fun f => Op.applyPlan { bitmap := parseBits bits, forceFrom := f })
  | _ => none

def showSfOut : Out → String
  | .chunk i => s!"c{i}" | .none => "n" | .fileEnd => "E" | .nothing => "-" | .declined => "x"

def showSfState (s : St) : String :=
  s!"{s.next} {s.inFlight} {showBool s.scheduleDone} {showBool s.endSent} {showBool s.verifyPending} {showBool s.resendPending} {s.resendChunk}"

def sfLoop (s : St) (ops : List Op) (acc : List String) : String :=
  match ops with
  | [] => String.intercalate " " acc.reverse ++ " | " ++ showSfState s
  | o :: os => let r := step s o; sfLoop r.1 os (showSfOut r.2 :: acc)

/-- `sf <total> <op>...` -/
def handleSf (ws : List String) : String :=
  match ws with
  | t :: ops =>
    match t.toNat?, ops.mapM parseSfOp with
    | some total, some os => sfLoop (init total) os []
    | _, _ => "bad-op"
  | _ => "bad-op"

open TV.Sched in
/-- `sched <smallThr> <parallel>  a:<key>:<remaining> | n:<chosenKey> | r:<key> ...`
    `n:<k>` carries the key the real scheduler chose; the model answers whether that choice is allowed
    (`ok`), or what it would allow (`allowed=[...]`), or `none` when nothing may be scheduled. -/
def handleSched (ws : List String) : String :=
  match ws with
  | thr :: slots :: ops =>
    match thr.toNat?, slots.toNat? with
    | some thr, some slots =>
      let cfg : Cfg := { smallThr := thr, smallSlots := slots }
      let rec go (fs : List F) (ops : List String) (acc : List String) (fuel : Nat) : String :=
        match fuel, ops with
        | 0, _ => "fuel"
        | _, [] => String.intercalate " " acc.reverse
        | fuel+1, o :: os =>
          match o.splitOn ":" with
          | ["a", k, r] =>
            match k.toNat?, r.toNat? with
            | some k, some r =>
              -- Add of an existing key replaces its meta (keeps list position); new keys are inserted in key order
              let fs' := if fs.any (·.key == k) then fs.map (fun f => if f.key == k then { f with remaining := r } else f)
                         else (fs.filter (·.key < k)) ++ [{ key := k, remaining := r, started := false }] ++ (fs.filter (·.key > k))
              go fs' os ("-" :: acc) fuel
            | _, _ => "bad-op"
          | ["t", _] => go fs os ("-" :: acc) fuel     -- time does not enter the model (C03_source_sched_aging)
          | ["r", k] =>
            match k.toNat? with
            | some k => go (fs.filter (·.key != k)) os ("-" :: acc) fuel
            | none => "bad-op"
          | ["n", k] =>
            -- which keys may `next` return?
            let ps := pendingSmall cfg fs
            let allowed : List Nat :=
              if activeSmall cfg fs < cfg.smallSlots ∧ ps ≠ [] then (match argmin ps with | some f => [f.key] | none => [])
              else (pendingWeighted cfg fs).map (·.key)
            if k == "none" then
              (if allowed.isEmpty then go fs os ("none" :: acc) fuel else s!"MODEL-ALLOWS {allowed} but impl returned none")
            else match k.toNat? with
              | some k => if allowed.contains k then go (markStarted k fs) os (s!"ok{k}" :: acc) fuel
                          else s!"NOT-ALLOWED {k} allowed={allowed}"
              | none => "bad-op"
          | _ => "bad-op"
      go [] ops [] (ops.length + 1)
    | _, _ => "bad-op"
  | _ => "bad-op"

end TV.Driver
