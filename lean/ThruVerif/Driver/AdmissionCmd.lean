import ThruVerif.Driver.Util
import ThruVerif.Model.Admission
/-! line-protocol command for the host admission machine (C12) -/
namespace TV.Driver
open TV.Admission

def showStatus : Status → String
  | .joined => "JOINED" | .queued => "QUEUED" | .transferring => "TRANSFERRING" | .done => "DONE" | .failed => "FAILED"

/-- peers are written `p<k>`; runs `p<k>#<n>` = n-th transfer started for that peer -/
def peerName (p : Nat) : String := s!"p{p}"

def parsePeer (s : String) : Option Nat :=
  if s.startsWith "p" then (s.drop 1).toString.toNat? else none

/-- history of all slots ever created: (peer, gen), oldest first -/
def runLabel (hist : List (Nat × Nat)) (peer gen : Nat) : String :=
  let n := (hist.filter (fun (p, g) => p == peer && g < gen)).length
  s!"{peerName peer}#{n}"

def showAdm (peers : List Nat) (hist : List (Nat × Nat)) (s : St) : String :=
  let q := String.intercalate "," (s.queue.map peerName)
  let a := String.intercalate "," (sortStrings (s.active.map (fun (p, _) => peerName p)))
  let st := String.intercalate "," (sortStrings (peers.filterMap fun p => (s.status p).map fun v => s!"{peerName p}:{showStatus v}"))
  let r := String.intercalate "," (sortStrings (s.running.map fun r => s!"{runLabel hist r.peer r.gen}:{showBool r.cancelled}"))
  s!"q=[{q}] a=[{a}] s=\{{st}} r=[{r}]"

def admLoop (s : St) (clock : Nat) (peers : List Nat) (hist : List (Nat × Nat)) (evs : List String) (acc : List String) : String :=
  match evs with
  | [] => String.intercalate " ; " acc.reverse
  | e :: es =>
    let fin (s' : St) (clock' : Nat) (peers' : List Nat) :=
      -- new slots created by this event
      let newHist := hist ++ ((List.range (s'.nextGen - s.nextGen)).map fun k =>
        let g := s.nextGen + k
        -- the peer of generation g: it is in running (just started) unless already finished within the event (impossible)
        match s'.running.find? (·.gen = g) with
        | some r => (r.peer, g)
        | none => (0, g))
      admLoop s' clock' peers' newHist es (showAdm peers' newHist s' :: acc)
    match e.splitOn ":" with
    | ["j", p] => match parsePeer p with
      | some p => fin (step s (.joined p clock)) clock (if peers.contains p then peers else peers ++ [p])
      | none => "bad-op"
    | ["a", p] => match parsePeer p with
      | some p => fin (step s (.accept p clock)) clock (if peers.contains p then peers else peers ++ [p])
      | none => "bad-op"
    | ["l", p] => match parsePeer p with
      | some p => fin (step s (.left p clock)) clock peers
      | none => "bad-op"
    | ["t", dt] => match dt.toNat? with
      | some dt => fin (step s (.tick (clock + dt))) (clock + dt) peers
      | none => "bad-op"
    | ["f", lbl, ok] =>
      -- find the running transfer with this label
      -- "2": a failure whose error wraps context.Canceled - for the bookkeeping a failure like any other
      match s.running.find? (fun r => runLabel hist r.peer r.gen == lbl), bool01 (if ok == "2" then "0" else ok) with
      | some r, some ok => fin (step s (.finished r.gen ok clock)) clock peers
      | none, some _ => admLoop s clock peers hist es ("nop" :: acc)
      | _, none => "bad-op"
    | _ => "bad-op"

/-- `adm <max> <ttl> ev...` -/
def handleAdm (ws : List String) : String :=
  match ws with
  | m :: t :: evs =>
    match m.toNat?, t.toNat? with
    | some m, some t => admLoop (init m t) 1000 [] [] evs []
    | _, _ => "bad-op"
  | _ => "bad-op"

end TV.Driver
