import ThruVerif.Driver.Util
import ThruVerif.Model.Sidecar
import ThruVerif.Gen.Consts
import ThruVerif.Gen.Geometry
/-! line-protocol commands for the resume sidecar (C06) -/
namespace TV.Driver
open TV TV.Sidecar

def scMagic : Bytes := TV.Gen.Consts.sidecarMagic
def scVersion : Nat := TV.Gen.Consts.sidecarVersion

def showSc (s : Sc) : String := s!"{hex s.fileID} {s.fileSize} {s.chunkSize} {s.total} {hex s.bitmap}"

/-- `scparse <hex>` -/
def handleScParse (ws : List String) : String :=
  match ws.mapM unhex with
  | some [d] => match parse scMagic scVersion d with
    | .ok s => "ok " ++ showSc s
    | .error _ => "err"
  | _ => "bad-op"

/-- `scser <fidhex> <fileSize> <chunkSize> <bitmaphex>`: what Flush writes for a sidecar created for (size, chunk) -/
def handleScSer (ws : List String) : String :=
  match ws with
  | [fid, fs, cs, bm] =>
    match unhex fid, fs.toNat?, cs.toNat?, unhex bm with
    | some fid, some fs, some cs, some bm =>
      let total := (TV.Gen.sidecarTotalRaw fs cs).toNat
      hex (serialize scMagic scVersion { fileID := fid, fileSize := fs, chunkSize := cs, total := total, bitmap := bm })
    | _, _, _, _ => "bad-op"
  | _ => "bad-op"

/-- `scload <datahex|none> <fidhex> <fileSize> <chunkSize>`: bitmap of the sidecar LoadOrCreate returns -/
def handleScLoad (ws : List String) : String :=
  match ws with
  | [d, fid, fs, cs] =>
    match (if d == "none" then some none else (unhex d).map some), unhex fid, fs.toNat?, cs.toNat? with
    | some data, some fid, some fs, some cs =>
      match loadValid scMagic scVersion data fid fs cs with
      | some s => "use " ++ hex s.bitmap
      | none =>
        let total := (TV.Gen.sidecarTotalRaw fs cs).toNat
        "fresh " ++ hex (List.replicate ((total + 7) / 8) 0)
    | _, _, _, _ => "bad-op"
  | _ => "bad-op"

end TV.Driver
