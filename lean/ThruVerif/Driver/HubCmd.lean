import ThruVerif.Driver.Util
import ThruVerif.Model.Hub
/-! line-protocol command for the signaling hub model (C11, C10): `hub <prog> | <schedule>` -/
namespace TV.Driver
open TV.Hub

def parseOp (s : String) : Option Op :=
  match s.splitOn ":" with
  | ["a", a, b, c] => do some (.add (← a.toNat?) (← b.toNat?) (← c.toNat?))
  | ["r", _, b, _] => do some (.remove (← b.toNat?))
  | ["c", a] => do some (.closeSession (← a.toNat?))
  | ["l", a] => do some (.list (← a.toNat?))
  | ["s", a, b, c] => do some (.sendTo (← a.toNat?) (← b.toNat?) (← c.toNat?))
  | ["b", a, b] => do some (.bcast (← a.toNat?) (← b.toNat?))
  | ["x", a, b, c] => do some (.bcastExcept (← a.toNat?) (← b.toNat?) (← c.toNat?))
  | _ => none

def parseProg (s : String) : Option (List (List Op)) :=
  if s == "-" then some [] else
  (s.splitOn "/").mapM fun ts => ((ts.splitOn ",").filter (· ≠ "")).mapM parseOp

/-- "2" or "2@5" -/
def parseItem (s : String) : Option (Nat × Nat) :=
  match s.splitOn "@" with
  | [t] => do some (← t.toNat?, 0)
  | [t, c] => do some (← t.toNat?, ← c.toNat?)
  | _ => none

def insertNat (x : Nat) : List Nat → List Nat
  | [] => [x]
  | y :: ys => if x ≤ y then x :: y :: ys else y :: insertNat x ys
def sortNat (xs : List Nat) : List Nat := xs.foldl (fun acc x => insertNat x acc) []
def dedupNat (xs : List Nat) : List Nat := (sortNat xs).eraseDups

def entryLe (a b : Entry) : Bool :=
  a.sid < b.sid || (a.sid == b.sid && (a.conn < b.conn || (a.conn == b.conn && a.peer ≤ b.peer)))
def insertEntry (x : Entry) : List Entry → List Entry
  | [] => [x]
  | y :: ys => if entryLe x y then x :: y :: ys else y :: insertEntry x ys
def sortEntries (xs : List Entry) : List Entry := xs.foldl (fun acc x => insertEntry x acc) []

def joinNat (xs : List Nat) : String := String.intercalate "," (xs.map toString)
def showEntries (xs : List Entry) : String :=
  String.intercalate "," ((sortEntries xs).map fun e => s!"{e.sid}:{e.conn}:{e.peer}")

def posOf (th : Thread) : String :=
  match th.pc with
  | .idle => if th.prog.isEmpty then "done" else "op"
  | .bcastHold .. => "send"
  | .removeClose .. => "unlinked"
  | .removeGC .. => "before_gc"
  | .closeLoop .. => "closing"

def showRes : Res → String
  | .listed t sid ps => s!"{t}:L:{sid}:[{joinNat (sortNat ps)}]"
  | .sent t sid p ok => s!"{t}:S:{sid}:{p}:{showBool ok}"

def showFinal (s : St) : String :=
  let conns := dedupNat ((s.inbox ++ s.outbox).map (·.conn))
  let recv := conns.map fun c =>
    let ms := (s.outbox ++ s.inbox).filter (·.conn == c)
    s!"{c}:[{String.intercalate "," (ms.map fun d => s!"{d.sid}/{d.msg}")}]"
  let unfinished := (s.threads.filter (fun th => !finished th)).length
  s!"reg=[{joinNat (sortNat s.reg)}] conns=[{showEntries s.conns}] idx=[{showEntries s.idx}] regidx=[{joinNat (sortNat s.reg)}] " ++
  s!"closed=[{joinNat (dedupNat s.closed)}] kicked=[{joinNat (dedupNat s.kicked)}] recv=\{{String.intercalate " " recv}} " ++
  s!"res=[{String.intercalate " " (s.results.map showRes)}] unfinished={unfinished}"

def hubLoop (s : St) (items : List (Nat × Nat)) (acc : List String) : St × List String :=
  match items with
  | [] => (s, acc.reverse)
  | (t, pick) :: rest =>
    if s.panicked then hubLoop s rest ("skip" :: acc) else
    match step s t pick with
    | none => hubLoop s rest ("skip" :: acc)
    | some s' =>
      if s'.panicked then
        -- the thread dies in the panic
        hubLoop s' rest ("panic:send_on_closed_channel" :: acc)
      else
        let pos := match s'.threads[t]? with | some th => posOf th | none => "?"
        hubLoop s' rest (s!"{pos}:{if s'.rlock == 0 then "f" else "r"}" :: acc)

/-- `hub <prog> | item...` : observation per item, then the final state. The queue capacity is the real 256. -/
def handleHub (ws : List String) : String :=
  match ws with
  | prog :: "|" :: items =>
    match parseProg prog, items.mapM parseItem with
    | some progs, some its =>
      let (s, obs) := hubLoop (init 256 progs) its []
      String.intercalate " " obs ++ " ; " ++ showFinal s
    | _, _ => "bad-op"
  | _ => "bad-op"

end TV.Driver
