import ThruVerif.Driver.Util
import ThruVerif.Driver.HubCmd
import ThruVerif.Model.Routing
/-! line-protocol command for the routing model (C10): `route <cap> act…`, every act settled before the next
(all broadcast steps taken, everything delivered) -/
namespace TV.Driver
open TV.Routing

/-- take every pending broadcast step (lowest target first) and deliver everything -/
def settle (fuel : Nat) (s : St) : St :=
  match fuel with
  | 0 => s
  | fuel + 1 =>
    match s.pend with
    | p :: _ =>
      match p.targets with
      | t :: _ => match step s (.bstep 0 t) with | some s' => settle fuel s' | none => s
      | [] => settle fuel { s with pend := s.pend.drop 1 }
    | [] =>
      match s.queue with
      | (r, _) :: _ => match step s (.deliver r) with | some s' => settle fuel s' | none => s
      | [] => s

def parseMsgKind (k : String) (claimed to body : Nat) : Raw :=
  if k == "ok" then .env 1 true true claimed to body
  else if k == "badver" then .env 2 true true claimed to body
  else if k == "notype" then .env 1 false true claimed to body
  else if k == "noid" then .env 1 true false claimed to body
  else .garbage

def routeLoop (s : St) (acts : List String) : Option St :=
  match acts with
  | [] => some s
  | a :: as =>
    match a.splitOn ":" with
    | ["j", sid, c, p] =>
      match sid.toNat?, c.toNat?, p.toNat? with
      | some sid, some c, some p => match step s (.join sid c p) with | some s' => routeLoop (settle 100000 s') as | none => none
      | _, _, _ => none
    | ["l", c] =>
      match c.toNat? with
      | some c =>
        match step s (.leave c) with
        | some s1 => match step s1 (.hangup c) with | some s2 => routeLoop (settle 100000 s2) as | none => none
        | none => none
      | none => none
    | "m" :: c :: to :: claimed :: body :: kind :: _ =>
      match c.toNat?, to.toNat?, claimed.toNat?, body.toNat? with
      | some c, some to, some claimed, some body =>
        match step s (.msg c (parseMsgKind kind claimed to body)) with
        | some s' => routeLoop (settle 100000 s') as
        | none => none
      | _, _, _, _ => none
    | _ => none

def showRoute (s : St) : String :=
  let conns := sortNat (s.ever.map (·.conn))
  let per := conns.map fun c =>
    let es := (s.recvd.filter (fun x => x.1 == c && x.2.aconn != 0)).map fun x => s!"{x.2.frm}:{x.2.to}:{x.2.body}"
    let er := (s.errs.filter (fun x => x.1 == c)).map fun x => toString x.2
    s!"c{c}=[{String.intercalate "," es}]e[{String.intercalate "," er}]"
  String.intercalate " " per ++ s!" dropped={s.dropped.length} panic={showBool s.panicked}"

/-- `route <cap> act…` -/
def handleRoute (ws : List String) : String :=
  match ws with
  | cap :: acts =>
    match cap.toNat? with
    | some cap => match routeLoop (init cap) acts with | some s => showRoute s | none => "stuck"
    | none => "bad-op"
  | _ => "bad-op"

end TV.Driver
