import ThruVerif.Driver.Util
import ThruVerif.Model.Path
import ThruVerif.Gen.Consts
/-! line-protocol commands for paths (C07) -/
namespace TV.Driver
open TV TV.Path

def maxName : Nat := TV.Gen.Consts.maxFilenameLength

def showPathErr : Option PathErr → String
  | none => "ok" | some .tooLong => "toolong" | some .invalid => "invalid"

def handlePath (cmd : String) (ws : List String) : String :=
  match cmd, ws.mapM unhex with
  | "clean", some [p] => hex (clean p)
  | "join", some [a, b] => hex (join a b)
  | "isabs", some [p] => showBool (isAbs p)
  | "vrel", some [p] => showPathErr (validateRelPath TV.Gen.Consts.maxRelPathLength p)
  | "vname", some [p] => showPathErr (validateFilename maxName p)
  | "dir", some [p] => hex (dirOf p)
  | _, _ => "bad-op"

def showStack (stk : List Bytes) : String := String.intercalate "/" (stk.map fun e => (hex e))

partial def parseItems (ws : List String) (items : List Item) (begins : List Begin) : Option (List Item × List Begin) :=
  match ws with
  | [] => some (items.reverse, begins.reverse)
  | "I" :: p :: d :: id :: n :: rest =>
    match unhex p, bool01 d, unhex id, n.toNat? with
    | some p, some d, some id, some n => parseItems rest (⟨p, d, id, n⟩ :: items) begins
    | _, _, _, _ => none
  | "B" :: p :: n :: c :: rest =>
    match unhex p, n.toNat?, c.toNat? with
    | some p, some n, some c => parseItems rest items (⟨p, n, c⟩ :: begins)
    | _, _, _ => none
  | _ => none

/-- `recvfx <noroot> <resume> <roothex> (I p dir id n | B p n chunk)*` -/
def handleRecvFx (ws : List String) : String :=
  match ws with
  | nr :: rs :: root :: rest =>
    match bool01 nr, bool01 rs, unhex root, parseItems rest [] [] with
    | some nr, some rs, some root, some (items, begins) =>
      match recvCreates TV.Gen.Consts.maxRelPathLength maxName TV.Gen.Consts.sidecarDir TV.Gen.Consts.sidecarSuffix nr rs
          { root := root, items := items } begins with
      | none => "reject"
      | some paths =>
        let strs := (paths.filter (· ≠ [])).map showStack
        "ok " ++ String.intercalate " " (sortStrings strs)
    | _, _, _, _ => "bad-op"
  | _ => "bad-op"

end TV.Driver
