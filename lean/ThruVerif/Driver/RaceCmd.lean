import ThruVerif.Driver.Util
import ThruVerif.Model.Race
/-! line-protocol command for the connection-race model (C09): `race <k> step…` -/
namespace TV.Driver
open TV.Race

def parseRaceStep (w : String) : Option Step :=
  let n := (w.drop 1).toString.toNat?
  if w == "m" then some .mainRecv
  else if w == "g" then some .mainGiveUp
  else if w == "K" then some .callerCancel
  else if w == "b" then some .mainAbort
  else if w == "a" then some .accept
  else if w == "p" then some .pickPrimary
  else match w.take 1 |>.toString, n with
    | "d", some i => some (.clientDone i)
    | "f", some i => some (.clientFail i)
    | "x", some i => some (.cancelSeen i)
    | "c", some i => some (.claim i)
    | "s", some i => some (.srvDone i)
    | "o", some i => some (.authOk i)
    | "n", some i => some (.authFail i)
    | _, _ => none

def showOptNat : Option Nat → String
  | some i => toString i
  | none => "-"

def raceLoop (s : St) (ws : List String) (k : Nat) : String :=
  match ws with
  | [] =>
    let opens := (List.range s.tasks.length).filter fun i => task s i == .established || task s i == .handed
    let won := ((List.range s.tasks.length).filter fun i => task s i == .handed).length
    s!"returned={if s.gaveUp then "failed" else if s.aborted then "cancelled" else showOptNat s.returned} open=[{String.intercalate "," (opens.map toString)}] won={won} primary={showOptNat s.primary} authed=[{String.intercalate "," (s.authed.map toString)}]"
  | w :: rest =>
    match parseRaceStep w with
    | none => "bad-op"
    | some a => match step s a with
      | some s' => raceLoop s' rest (k + 1)
      | none => s!"stuck@{k}"

def handleRace (ws : List String) : String :=
  match ws with
  | k :: steps => match k.toNat? with
    | some k => raceLoop (init k) steps 0
    | none => "bad-op"
  | _ => "bad-op"

end TV.Driver
