import ThruVerif.Driver.Util
import ThruVerif.Model.Url
/-! `url` driver commands: the net/url subset of `Model/Url.lean` -/
namespace TV.Driver
open TV.Url

def optHex : Option (List UInt8) → String
  | some b => hex b
  | none => "err"

def handleUrl (ws : List String) : String :=
  match ws with
  | ["qesc", s] => match unhex s with
    | some b => hex (escape .query b)
    | none => "bad-op"
  | ["uesc", s] => match unhex s with
    | some b => hex (escape .userPassword b)
    | none => "bad-op"
  | ["qunesc", s] => match unhex s with
    | some b => optHex (unescape .query b)
    | none => "bad-op"
  | ["uunesc", s] => match unhex s with
    | some b => optHex (unescape .userPassword b)
    | none => "bad-op"
  | ["wsq", code, peer, role, mx] =>
    match unhex code, unhex peer, unhex role, mx.toNat? with
    | some c, some p, some r, some m => hex (wsQuery c p r m)
    | _, _, _, _ => "bad-op"
  | ["qget", q, key] =>
    match unhex q, unhex key with
    | some q, some k => hex (queryGet q k)
    | _, _ => "bad-op"
  | ["inject", tls, hp, q, user, pass] =>
    match bool01 tls, unhex hp, unhex q, unhex user, unhex pass with
    | some t, some hp, some q, some u, some p => hex (inject ⟨t, hp, q⟩ u p)
    | _, _, _, _, _ => "bad-op"
  | ["pturn", raw] =>
    match unhex raw with
    | some r =>
      match parseTurn r with
      | some t => s!"{hex t.scheme} {hex t.user} {hex t.pass} {hex t.hostPort} {hex t.query}"
      | none => "err"
    | none => "bad-op"
  | _ => "bad-op"

end TV.Driver
