import ThruVerif.Driver.Util
import ThruVerif.Model.Codec
import ThruVerif.Model.Path
import ThruVerif.Gen.Consts
/-! line-protocol commands for the control codec (C18 / C15) -/
namespace TV.Driver
open TV TV.Codec

def maxPath : Nat := TV.Gen.Consts.maxRelPathLength

def showRec : Rec → String
  | .fileBegin p a b c d e f g h => s!"FB {hex p} {a} {b} {c} {d} {e} {f} {g} {h}"
  | .credit a b => s!"CR {a} {b}"
  | .creditBatch es => "CB " ++ toString es.length ++ String.join (es.map fun (a, b) => s!" {a} {b}")
  | .fileEnd a b => s!"FE {a} {b}"
  | .fileDone a ok e => s!"FD {a} {showBool ok} {hex e}"
  | .fileResumeInfo f a b bm c d => s!"RI {hex f} {a} {b} {hex bm} {c} {d}"
  | .resumeRequest f a => s!"RQ {hex f} {a}"
  | .dataStreams c => s!"DS {c}"
  | .end_ => "EN"

def pairs : List Nat → Option (List (Nat × Nat))
  | [] => some []
  | a :: b :: r => (pairs r).map ((a, b) :: ·)
  | _ => none

def parseRec : List String → Option Rec
  | ["FB", p, a, b, c, d, e, f, g, h] => do
    let p ← unhex p
    let ns ← natList [a, b, c, d, e, f, g, h]
    match ns with
    | [a, b, c, d, e, f, g, h] => some (.fileBegin p a b c d e f g h)
    | _ => none
  | ["CR", a, b] => do let a ← a.toNat?; let b ← b.toNat?; some (.credit a b)
  | "CB" :: n :: rest => do
    let n ← n.toNat?
    let ns ← natList rest
    let ps ← pairs ns
    if ps.length = n then some (.creditBatch ps) else none
  | ["FE", a, b] => do let a ← a.toNat?; let b ← b.toNat?; some (.fileEnd a b)
  | ["FD", a, ok, e] => do let a ← a.toNat?; let ok ← bool01 ok; let e ← unhex e; some (.fileDone a ok e)
  | ["RI", f, a, b, bm, c, d] => do
    let f ← unhex f; let a ← a.toNat?; let b ← b.toNat?; let bm ← unhex bm; let c ← c.toNat?; let d ← d.toNat?
    some (.fileResumeInfo f a b bm c d)
  | ["RQ", f, a] => do let f ← unhex f; let a ← a.toNat?; some (.resumeRequest f a)
  | ["DS", c] => do let c ← c.toNat?; some (.dataStreams c)
  | ["EN"] => some .end_
  | _ => none

def showErr : DErr → String
  | .eof => "eof" | .ueof => "ueof" | .badTag _ => "badtag" | .tooLong => "toolong" | .limit => "limit"

/-- `enc <rec>`: what `write<Record>` puts on the wire (FileBegin refuses invalid paths) -/
def handleEnc (ws : List String) : String :=
  match parseRec ws with
  | none => "bad-op"
  | some r =>
    match r with
    | .fileBegin p .. =>
      match TV.Path.validateRelPath maxPath p with
      | some .tooLong => "err toolong"
      | some .invalid => "err invalid"
      | none => hex (encode maxPath r)
    | _ => hex (encode maxPath r)

/-- `dec <hex>`: `readControlMessage` on these bytes followed by end of input -/
def handleDec (ws : List String) : String :=
  match ws with
  | [h] =>
    match unhex h with
    | none => "bad-op"
    | some bs =>
      match decode maxPath bs with
      | .ok (r, rest) => s!"ok {showRec r} consumed={bs.length - rest.length}"
      | .error e => s!"err {showErr e}"
  | _ => "bad-op"

/-- `decall <hex>`: records until the input ends or an error occurs -/
def decAllShow (fuel : Nat) (bs : Bytes) (acc : List String) : String :=
  match fuel with
  | 0 => String.intercalate " | " acc.reverse
  | fuel+1 =>
    match decode maxPath bs with
    | .ok (r, rest) => decAllShow fuel rest (showRec r :: acc)
    | .error e => String.intercalate " | " (s!"err {showErr e}" :: acc).reverse

def handleDecAll (ws : List String) : String :=
  match ws with
  | [h] => match unhex h with
    | none => "bad-op"
    | some bs => decAllShow (bs.length + 1) bs []
  | _ => "bad-op"

/-- `hdr <hex>`: `readControlHeader` up to (not including) the JSON unmarshal -/
def handleHdr (ws : List String) : String :=
  match ws with
  | [h] => match unhex h with
    | none => "bad-op"
    | some bs =>
      match decodeHeader TV.Gen.Consts.controlMagic bs with
      | .ok (j, rest) => s!"ok {hex j} consumed={bs.length - rest.length}"
      | .error e => s!"err {showErr e}"
  | _ => "bad-op"

/-- `enchdr <jsonhex>` -/
def handleEncHdr (ws : List String) : String :=
  match ws with
  | [h] => match unhex h with
    | none => "bad-op"
    | some j => hex (encodeHeader TV.Gen.Consts.controlMagic j)
  | _ => "bad-op"

end TV.Driver
