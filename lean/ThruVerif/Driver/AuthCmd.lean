import ThruVerif.Driver.Util
import ThruVerif.Model.Auth
/-! `auth` driver commands: the byte-level authentication model executed with HMAC-SHA256 -/
namespace TV.Driver
open TV.Auth

def verdictName : Verdict → String
  | .accept => "accept"
  | .shortRead => "short-read"
  | .badVersion => "bad-version"
  | .badRole => "bad-role"
  | .badProof => "bad-proof"

def handleAuth (ws : List String) : String :=
  match ws with
  | ["mk", role, code, ekm, nonce] =>
    match role.toNat?, unhex code, unhex ekm, unhex nonce with
    | some r, some c, some e, some n => hex (mkMsg hmacSha256 (deriveKey hmacSha256 c e) (UInt8.ofNat r) n)
    | _, _, _, _ => "bad-op"
  | ["chk", role, code, ekm, wire] =>
    match role.toNat?, unhex code, unhex ekm, unhex wire with
    | some r, some c, some e, some w => verdictName (check hmacSha256 (deriveKey hmacSha256 c e) (UInt8.ofNat r) w)
    | _, _, _, _ => "bad-op"
  | ["key", code, ekm] =>
    match unhex code, unhex ekm with
    | some c, some e => hex (deriveKey hmacSha256 c e)
    | _, _ => "bad-op"
  | ["pair", cs, es, cr, er, ns, nr] =>
    match unhex cs, unhex es, unhex cr, unhex er, unhex ns, unhex nr with
    | some cs, some es, some cr, some er, some ns, some nr =>
      let v := honestPair hmacSha256 cs es cr er ns nr
      s!"{verdictName v.1} {verdictName v.2}"
    | _, _, _, _, _, _ => "bad-op"
  | _ => "bad-op"

end TV.Driver
