import ThruVerif.Driver.Util
import ThruVerif.Gen.Geometry
import ThruVerif.Driver.CodecCmd
import ThruVerif.Driver.SendFileCmd
import ThruVerif.Driver.AdmissionCmd
import ThruVerif.Driver.PathCmd
import ThruVerif.Driver.SidecarCmd
import ThruVerif.Driver.ScanCmd
import ThruVerif.Driver.AuthCmd
import ThruVerif.Driver.UrlCmd
import ThruVerif.Driver.HubCmd
import ThruVerif.Driver.ServerCmd
import ThruVerif.Driver.RouteCmd
import ThruVerif.Driver.RaceCmd
import ThruVerif.Driver.ResumeCmd
import ThruVerif.Model.Budget
/-!
`tvdriver`: one case per input line, one result per output line. The same lines are given to the Go
harness, which runs the real code; the orchestrator diffs the two outputs.
-/
open TV.Driver

def handleGeo (ws : List String) : String :=
  match intList ws with
  | some [size, c, idx, sc] =>
    let side := if sc = 1 then toString (TV.Gen.sidecarTotalRaw size c) else "-"
    s!"{TV.Gen.chunkTotal size c} {TV.Gen.chunkSizeForIndex size c idx} {side}"
  | _ => "bad-op"

def handleBudget (ws : List String) : String :=
  match natList ws with
  | some [f, r, c] =>
    let b := TV.Budget.computeBudget f r c (decide (c > 1))
    s!"{b.1} {b.2} {TV.Budget.normalizeStreams b.1}"
  | _ => "bad-op"

def handle (line : String) : String :=
  match (line.trimAscii.toString.splitOn " ").filter (· ≠ "") with
  | "geo" :: ws => handleGeo ws
  | "enc" :: ws => handleEnc ws
  | "dec" :: ws => handleDec ws
  | "decall" :: ws => handleDecAll ws
  | "hdr" :: ws => handleHdr ws
  | "enchdr" :: ws => handleEncHdr ws
  | "sf" :: ws => handleSf ws
  | "plan" :: ws => handlePlan ws
  | "sched" :: ws => handleSched ws
  | "adm" :: ws => handleAdm ws
  | "recvfx" :: ws => handleRecvFx ws
  | "scparse" :: ws => handleScParse ws
  | "budget" :: ws => handleBudget ws
  | "scan" :: ws => handleScan ws
  | "auth" :: ws => handleAuth ws
  | "url" :: ws => handleUrl ws
  | "hub" :: ws => handleHub ws
  | "store" :: ws => handleStore ws
  | "route" :: ws => handleRoute ws
  | "race" :: ws => handleRace ws
  | "srv" :: ws => handleSrv ws
  | "bucket" :: ws => handleBucket ws
  | "connlim" :: ws => handleConnLim ws
  | "topnames" :: ws => handleTopNames ws
  | "scser" :: ws => handleScSer ws
  | "scload" :: ws => handleScLoad ws
  | "clean" :: ws => handlePath "clean" ws
  | "join" :: ws => handlePath "join" ws
  | "isabs" :: ws => handlePath "isabs" ws
  | "vrel" :: ws => handlePath "vrel" ws
  | "vname" :: ws => handlePath "vname" ws
  | "dir" :: ws => handlePath "dir" ws
  | _ => "bad-op"

partial def loop (h : IO.FS.Stream) (out : IO.FS.Stream) : IO Unit := do
  let line ← h.getLine
  if line.isEmpty then return ()
  out.putStrLn (handle line)
  loop h out

def main : IO Unit := do
  let out ← IO.getStdout
  loop (← IO.getStdin) out
  out.flush
